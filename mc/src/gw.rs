//! Gateway kit: signer sets, proofs, messages and digests built on the harness side from the
//! documented recipes (hand-assembled ScVals + tiny-keccak + ed25519-dalek), never through the
//! contract's own helpers or the repository's testutils.

use crate::refs::*;
use crate::world::{Auth, World};
use ed25519_dalek::{Signer, SigningKey};
use serde::{Deserialize, Serialize};
use soroban_sdk::xdr::{ScAddress, ScVal};
use soroban_sdk::{Address, Val};
use std::cell::RefCell;
use std::collections::HashMap;

pub struct Keys {
    pub sk: Vec<SigningKey>,
    pub pk: Vec<[u8; 32]>,
}

impl Keys {
    /// `n` keys from fixed seeds, sorted by public key (ascending), so index order = key order.
    pub fn new(n: usize) -> Keys {
        let mut v: Vec<SigningKey> = (0..n)
            .map(|i| SigningKey::from_bytes(&[(i as u8) + 1; 32]))
            .collect();
        v.sort_by_key(|k| k.verifying_key().to_bytes());
        let pk = v.iter().map(|k| k.verifying_key().to_bytes()).collect();
        Keys { sk: v, pk }
    }
}

thread_local! {
    static SIG_CACHE: RefCell<HashMap<([u8;32],[u8;32]), [u8;64]>> = RefCell::new(HashMap::new());
}

pub fn sign(keys: &Keys, ix: usize, digest: &[u8; 32]) -> [u8; 64] {
    let k = (keys.pk[ix], *digest);
    SIG_CACHE.with(|c| {
        *c.borrow_mut()
            .entry(k)
            .or_insert_with(|| keys.sk[ix].sign(digest).to_bytes())
    })
}

pub fn verify_ok(pk: &[u8; 32], digest: &[u8; 32], sig: &[u8; 64]) -> bool {
    use ed25519_dalek::{Signature, Verifier, VerifyingKey};
    match VerifyingKey::from_bytes(pk) {
        Ok(vk) => vk.verify(digest, &Signature::from_bytes(sig)).is_ok(),
        Err(_) => false,
    }
}

#[derive(Clone, Debug, PartialEq, Eq, Hash, Serialize, Deserialize)]
pub struct RawSet {
    pub signers: Vec<([u8; 32], u128)>,
    pub threshold: u128,
    pub nonce: [u8; 32],
}

/// A signer set over the harness keys: (key index, weight).
#[derive(Clone, Debug, PartialEq, Eq, Hash, Serialize, Deserialize)]
pub struct SetSpec {
    pub signers: Vec<(usize, u128)>,
    pub threshold: u128,
    pub nonce: u8,
}

impl SetSpec {
    pub fn raw(&self, keys: &Keys) -> RawSet {
        RawSet {
            signers: self.signers.iter().map(|(i, w)| (keys.pk[*i], *w)).collect(),
            threshold: self.threshold,
            nonce: [self.nonce; 32],
        }
    }
}

impl RawSet {
    pub fn scval(&self) -> ScVal {
        smap(vec![
            ("nonce", sbytes(&self.nonce)),
            (
                "signers",
                svec(
                    self.signers
                        .iter()
                        .map(|(k, w)| smap(vec![("signer", sbytes(k)), ("weight", su128(*w))]))
                        .collect(),
                ),
            ),
            ("threshold", su128(self.threshold)),
        ])
    }
    pub fn hash(&self) -> [u8; 32] {
        keccak(&xdr(&self.scval()))
    }
    /// data hash a rotation proof must sign: keccak(XDR((RotateSigners, set)))
    pub fn rotation_data_hash(&self) -> [u8; 32] {
        keccak(&xdr(&svec(vec![senum("RotateSigners", vec![]), self.scval()])))
    }
    /// independent well-formedness predicate of the property statement
    pub fn well_formed(&self) -> bool {
        if self.signers.is_empty() {
            return false;
        }
        let mut total: u128 = 0;
        for (i, (k, w)) in self.signers.iter().enumerate() {
            if i > 0 && !(self.signers[i - 1].0 < *k) {
                return false;
            }
            if *w == 0 {
                return false;
            }
            total = match total.checked_add(*w) {
                Some(t) => t,
                None => return false,
            };
        }
        self.threshold != 0 && self.threshold <= total
    }
}

/// digest = keccak(domain || signers_hash || data_hash)
pub fn digest(domain: &[u8; 32], signers_hash: &[u8; 32], data_hash: &[u8; 32]) -> [u8; 32] {
    let mut b = Vec::with_capacity(96);
    b.extend_from_slice(domain);
    b.extend_from_slice(signers_hash);
    b.extend_from_slice(data_hash);
    keccak(&b)
}

/// A proof as submitted: the declared set plus per-entry optional signatures.
pub fn proof_scval(declared: &RawSet, sigs: &[Option<[u8; 64]>]) -> ScVal {
    assert_eq!(declared.signers.len(), sigs.len());
    smap(vec![
        ("nonce", sbytes(&declared.nonce)),
        (
            "signers",
            svec(
                declared
                    .signers
                    .iter()
                    .zip(sigs.iter())
                    .map(|((k, w), s)| {
                        smap(vec![
                            (
                                "signature",
                                match s {
                                    Some(sig) => senum("Signed", vec![sbytes(sig)]),
                                    None => senum("Unsigned", vec![]),
                                },
                            ),
                            (
                                "signer",
                                smap(vec![("signer", sbytes(k)), ("weight", su128(*w))]),
                            ),
                        ])
                    })
                    .collect(),
            ),
        ),
        ("threshold", su128(declared.threshold)),
    ])
}

/// Honest proof: every signer of `set` signs `data_hash` under `domain`.
pub fn honest_proof(keys: &Keys, set: &SetSpec, domain: &[u8; 32], data_hash: &[u8; 32]) -> ScVal {
    let raw = set.raw(keys);
    let d = digest(domain, &raw.hash(), data_hash);
    let sigs: Vec<Option<[u8; 64]>> = set
        .signers
        .iter()
        .map(|(i, _)| Some(sign(keys, *i, &d)))
        .collect();
    proof_scval(&raw, &sigs)
}

#[derive(Clone, Debug, PartialEq, Eq, Hash, Serialize, Deserialize)]
pub struct Msg {
    pub chain: String,
    pub id: String,
    pub src: String,
    /// index of the destination contract in the scenario's address table
    pub dest: usize,
    pub payload_hash: [u8; 32],
}

pub fn msg_scval(m: &Msg, dest: &ScAddress) -> ScVal {
    smap(vec![
        ("contract_address", saddr(dest)),
        ("message_id", sstr(&m.id)),
        ("payload_hash", sbytes(&m.payload_hash)),
        ("source_address", sstr(&m.src)),
        ("source_chain", sstr(&m.chain)),
    ])
}

/// data hash an approval proof must sign: keccak(XDR((ApproveMessages, messages)))
pub fn approve_data_hash(msgs: &[ScVal]) -> [u8; 32] {
    keccak(&xdr(&svec(vec![
        senum("ApproveMessages", vec![]),
        svec(msgs.to_vec()),
    ])))
}

pub const DOMAIN: [u8; 32] = [0xd0; 32];

/// Registers the gateway from the current tree (setup path; constructor failure panics).
pub fn register_gateway(
    w: &World,
    at: Option<&Address>,
    owner: &Address,
    operator: &Address,
    domain: &[u8; 32],
    min_delay: u64,
    retention: u64,
    initial: &[RawSet],
) -> Address {
    let env = &w.env;
    let sets = svec(initial.iter().map(|s| s.scval()).collect());
    let args: (Address, Address, Val, u64, u64, Val) = (
        owner.clone(),
        operator.clone(),
        to_val(env, &sbytes(domain)),
        min_delay,
        retention,
        to_val(env, &sets),
    );
    match at {
        Some(a) => env.register_at(a, axelar_gateway::AxelarGateway, args),
        None => env.register(axelar_gateway::AxelarGateway, args),
    }
}

/// approve a batch with an honest proof from `set` (used by scenarios as a macro step)
pub fn approve(
    w: &World,
    gw: &Address,
    keys: &Keys,
    set: &SetSpec,
    domain: &[u8; 32],
    msgs: &[ScVal],
) -> crate::world::Call {
    let dh = approve_data_hash(msgs);
    let proof = honest_proof(keys, set, domain, &dh);
    let env = &w.env;
    w.call(
        gw,
        "approve_messages",
        &[to_val(env, &svec(msgs.to_vec())), to_val(env, &proof)],
        Auth::Nobody,
    )
}
