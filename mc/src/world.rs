//! World: one soroban test host running the *real* contracts natively, with every
//! source of nondeterminism owned by the harness (ledger time/sequence, auth, nonces).
//!
//! DESIGN.md section 3.1-3.3.

use soroban_env_host::storage::Storage;
use soroban_env_host::{DiagnosticLevel, LedgerInfo};
use soroban_sdk::testutils::{EnvTestConfig, Ledger as _};
use soroban_sdk::xdr::{
    ContractDataDurability, ContractEventBody, ContractEventType, Hash, InvokeContractArgs,
    LedgerKey, Limits, ScAddress, ScSymbol, ScVal, ScVec,
    SorobanAddressCredentials, SorobanAuthorizationEntry, SorobanAuthorizedFunction,
    SorobanAuthorizedInvocation, SorobanCredentials, VecM, WriteXdr,
};
use soroban_sdk::{Address, Env, IntoVal, Symbol, TryFromVal, Val, Vec as SVec};
use std::cell::Cell;
use std::hash::Hasher;

/// A contract event as observed on the host, in host-independent XDR values.
#[derive(Clone, Debug, PartialEq, Eq)]
pub struct Ev {
    pub contract: ScAddress,
    pub topics: Vec<ScVal>,
    pub data: ScVal,
}

impl Ev {
    /// Name of the event = first topic when it is a symbol.
    pub fn name(&self) -> String {
        match self.topics.first() {
            Some(ScVal::Symbol(s)) => s.to_utf8_string_lossy(),
            _ => String::new(),
        }
    }
    /// All leaf values carried by the event (topics after the name, and data), flattened
    /// through vectors and maps, so that the topic/data split and struct nesting do not matter.
    pub fn leaves(&self) -> Vec<ScVal> {
        let mut out = vec![];
        for t in self.topics.iter().skip(1) {
            flatten(t, &mut out);
        }
        flatten(&self.data, &mut out);
        out
    }
}

pub fn flatten(v: &ScVal, out: &mut Vec<ScVal>) {
    match v {
        ScVal::Vec(Some(ScVec(items))) => {
            for i in items.iter() {
                flatten(i, out)
            }
        }
        ScVal::Map(Some(m)) => {
            for e in m.0.iter() {
                flatten(&e.val, out)
            }
        }
        ScVal::Void => {}
        other => out.push(other.clone()),
    }
}

/// Result of one top-level invocation.
#[derive(Clone, Debug)]
pub struct Call {
    pub ok: bool,
    pub ret: Option<ScVal>,
    /// short description of the failure (for reports only, never compared)
    pub err: String,
    /// contract events emitted by this (successful) call
    pub events: Vec<Ev>,
}

impl Call {
    pub fn ret_bool(&self) -> Option<bool> {
        match self.ret {
            Some(ScVal::Bool(b)) => Some(b),
            _ => None,
        }
    }
    pub fn events_named(&self, name: &str) -> Vec<&Ev> {
        self.events.iter().filter(|e| e.name() == name).collect()
    }
}

#[derive(Clone)]
pub struct Snap {
    storage: Storage,
    ledger: LedgerInfo,
}

pub struct World {
    pub env: Env,
    nonce: Cell<i64>,
    pub calls: Cell<u64>,
}

/// How a call is authorised.
#[derive(Clone, Debug)]
pub enum Auth<'a> {
    /// enforcing mode, no authorisation entries at all
    Nobody,
    /// enforcing mode: exactly these principals sign whatever the call demands of them
    /// (recorded from the running code, then enforced)
    By(&'a [Address]),
    /// like `By`, but the principals sign only the *root* invocation the call demands of
    /// them, with all nested sub-invocations stripped
    RootOnly(&'a [Address]),
    /// like `By`, but the last argument-bearing position of the signed root invocation is
    /// altered (the principal authorised a *different* call)
    Altered(&'a [Address]),
    /// like `By`, but only the demanded invocations whose root function has this name are signed
    Only(&'a [Address], &'a str),
    /// the principals sign what the code demands of them for a *different* call
    /// (contract, function, arguments), and those entries are presented with this call
    ForOtherCall(&'a [Address], &'a Address, &'a str, &'a [Val]),
    /// recording mode (setup only, never used for a verdict)
    Setup,
}

thread_local! {
    static HOOK_INSTALLED: Cell<bool> = Cell::new(false);
}

/// Native contract panics are caught by the host; keep stderr quiet.
/// how far ahead of the current ledger the keeper keeps every durable entry alive
pub const KEEPER_HORIZON: u32 = 3_000_000;

thread_local! {
    /// (file, line, message) of the most recent panic on this thread
    pub static LAST_PANIC: std::cell::RefCell<Option<(String, u32, String)>> = std::cell::RefCell::new(None);
}

pub fn install_quiet_panic_hook() {
    use std::sync::Once;
    static ONCE: Once = Once::new();
    ONCE.call_once(|| {
        let default = std::panic::take_hook();
        std::panic::set_hook(Box::new(move |info| {
            // remember where and why (explore::guarded turns a failed setup assertion of a
            // scenario into a reportable mismatch instead of a crash)
            let msg = info
                .payload()
                .downcast_ref::<&str>()
                .map(|s| s.to_string())
                .or_else(|| info.payload().downcast_ref::<String>().cloned())
                .unwrap_or_default();
            let loc = info.location().map(|l| (l.file().to_string(), l.line())).unwrap_or_default();
            LAST_PANIC.with(|p| *p.borrow_mut() = Some((loc.0, loc.1, msg)));
            // panics inside contract code are caught by the host and are ordinary rejections;
            // panics of the harness itself (paths relative to this crate) are always shown
            let in_harness = info
                .location()
                .map(|l| l.file().starts_with("src/") && !l.file().ends_with("aux.rs"))
                .unwrap_or(false);
            if in_harness || std::env::var_os("AXMC_PANIC_VERBOSE").is_some() {
                default(info);
            }
        }));
    });
}

impl World {
    pub fn new() -> World {
        install_quiet_panic_hook();
        let env = Env::new_with_config(EnvTestConfig {
            capture_snapshot_at_drop: false,
        });
        env.budget().reset_unlimited();
        let host = env.host();
        if std::env::var_os("AXMC_DIAG").is_none() {
            host.set_diagnostic_level(DiagnosticLevel::None).unwrap();
        }
        // the SDK's hook appends to an ever-growing vector on every invocation
        host.set_top_contract_invocation_hook(None).unwrap();
        // clears the event buffer at the start of every top-level invocation, so that the
        // events read after a call are exactly that call's events
        host.enable_invocation_metering();
        env.ledger().set(LedgerInfo {
            protocol_version: 22,
            sequence_number: 100,
            timestamp: 0,
            network_id: [0; 32],
            base_reserve: 0,
            // persistent and instance entries live at least ~173 days from their last write, as on
            // the public network (where the minimum is 120 days); temporary entries 16 ledgers.
            // Scenarios may therefore let ~64 days pass without any persistent entry being archived.
            min_persistent_entry_ttl: 3_000_000,
            min_temp_entry_ttl: 16,
            max_entry_ttl: 6_312_000,
        });
        env.set_auths(&[]);
        World {
            env,
            nonce: Cell::new(1),
            calls: Cell::new(0),
        }
    }

    // ---------------------------------------------------------------- snapshots

    pub fn snap(&self) -> Snap {
        let storage = self
            .env
            .host()
            .with_mut_storage(|s| Ok(s.clone()))
            .unwrap();
        Snap {
            storage,
            ledger: self.env.ledger().get(),
        }
    }

    pub fn restore(&self, snap: &Snap) {
        self.env
            .host()
            .with_mut_storage(|s| {
                *s = snap.storage.clone();
                Ok(())
            })
            .unwrap();
        self.env.ledger().set(snap.ledger.clone());
    }

    /// Canonical hash of everything a contract can observe: every live ledger entry
    /// (key, data; `live_until` only for temporary entries), ledger timestamp and sequence.
    /// Dropped: auth nonces, uploaded code blobs, TTL of instance/persistent entries,
    /// `last_modified_ledger_seq` (see DESIGN.md 3.4 for the argument).
    pub fn state_hash(&self) -> u128 {
        let mut h1 = std::collections::hash_map::DefaultHasher::new();
        let mut h2 = std::collections::hash_map::DefaultHasher::new();
        h2.write_u64(0x9e3779b97f4a7c15);
        let budget = self.env.host().budget_cloned();
        let li = self.env.ledger().get();
        let seq = li.sequence_number;
        self.env
            .host()
            .with_mut_storage(|s| {
                for (k, v) in s.map.iter(&budget)? {
                    let Some((entry, live_until)) = v else {
                        continue;
                    };
                    let mut temp = false;
                    match k.as_ref() {
                        LedgerKey::ContractCode(_) => continue,
                        LedgerKey::ContractData(cd) => {
                            if matches!(cd.key, ScVal::LedgerKeyNonce(_)) {
                                continue;
                            }
                            temp = cd.durability == ContractDataDurability::Temporary;
                        }
                        _ => {}
                    }
                    if temp {
                        // an expired temporary entry is invisible to contracts
                        if let Some(l) = live_until {
                            if *l < seq {
                                continue;
                            }
                        }
                    }
                    let mut buf = Vec::with_capacity(256);
                    k.as_ref()
                        .write_xdr(&mut soroban_sdk::xdr::Limited::new(
                            &mut buf,
                            Limits::none(),
                        ))
                        .unwrap();
                    entry
                        .data
                        .write_xdr(&mut soroban_sdk::xdr::Limited::new(
                            &mut buf,
                            Limits::none(),
                        ))
                        .unwrap();
                    if temp {
                        buf.extend_from_slice(&live_until.unwrap_or(0).to_le_bytes());
                    }
                    h1.write(&buf);
                    h2.write(&buf);
                    h1.write_u8(0xfe);
                    h2.write_u8(0xfd);
                }
                Ok(())
            })
            .unwrap();
        h1.write_u64(li.timestamp);
        h1.write_u32(seq);
        h2.write_u64(li.timestamp);
        h2.write_u32(seq);
        ((h1.finish() as u128) << 64) | (h2.finish() as u128)
    }

    /// Smallest `live_until` over instance/persistent entries (the harness asserts the ledger
    /// sequence never gets near it, so no such entry can expire within the horizon).
    pub fn min_persistent_live_until(&self) -> u32 {
        let budget = self.env.host().budget_cloned();
        let mut min = u32::MAX;
        self.env
            .host()
            .with_mut_storage(|s| {
                for (k, v) in s.map.iter(&budget)? {
                    if let Some((_, Some(l))) = v {
                        if let LedgerKey::ContractData(cd) = k.as_ref() {
                            if cd.durability == ContractDataDurability::Persistent
                                && !matches!(cd.key, ScVal::LedgerKeyNonce(_))
                            {
                                min = min.min(*l);
                            }
                        }
                    }
                }
                Ok(())
            })
            .unwrap();
        min
    }

    /// Remove every ledger entry owned by `addr` (used to turn a registered native contract
    /// into an empty "seat": the function set stays registered with the host, the ledger
    /// has no trace of the contract).
    pub fn wipe_contract(&self, addr: &Address) {
        let sc: ScAddress = addr.try_into().unwrap();
        let budget = self.env.host().budget_cloned();
        self.env
            .host()
            .with_mut_storage(|s| {
                let mut dead = vec![];
                for (k, v) in s.map.iter(&budget)? {
                    if v.is_none() {
                        continue;
                    }
                    if let LedgerKey::ContractData(cd) = k.as_ref() {
                        if cd.contract == sc {
                            dead.push(k.clone());
                        }
                    }
                }
                for k in dead {
                    s.map = s.map.insert(k, None, &budget)?;
                }
                Ok(())
            })
            .unwrap();
    }

    pub fn has_instance(&self, addr: &Address) -> bool {
        let sc: ScAddress = addr.try_into().unwrap();
        let budget = self.env.host().budget_cloned();
        let mut found = false;
        self.env
            .host()
            .with_mut_storage(|s| {
                for (k, v) in s.map.iter(&budget)? {
                    if v.is_none() {
                        continue;
                    }
                    if let LedgerKey::ContractData(cd) = k.as_ref() {
                        if cd.contract == sc {
                            found = true;
                        }
                    }
                }
                Ok(())
            })
            .unwrap();
        found
    }

    // ---------------------------------------------------------------- ledger

    pub fn now(&self) -> u64 {
        self.env.ledger().timestamp()
    }
    pub fn seq(&self) -> u32 {
        self.env.ledger().sequence()
    }
    pub fn set_time(&self, t: u64) {
        self.env.ledger().set_timestamp(t)
    }
    /// Moves the ledger sequence and plays the network's *keeper*: on Stellar anybody can extend
    /// the lifetime of, or restore, any instance / persistent / code entry, and an archived entry
    /// is not lost, so for safety properties such entries are immortal; the world therefore pushes
    /// their `live_until` ahead of every new sequence number. Temporary entries are left alone:
    /// they really disappear at their `live_until`, however far the ledger jumps.
    pub fn set_seq(&self, s: u32) {
        self.env.ledger().set_sequence_number(s);
        let want = s.saturating_add(KEEPER_HORIZON);
        let budget = self.env.host().budget_cloned();
        self.env
            .host()
            .with_mut_storage(|st| {
                let mut bump = vec![];
                for (k, v) in st.map.iter(&budget)? {
                    let Some((entry, live_until)) = v else { continue };
                    let durable = match k.as_ref() {
                        LedgerKey::ContractCode(_) => true,
                        LedgerKey::ContractData(cd) => cd.durability == ContractDataDurability::Persistent,
                        _ => false,
                    };
                    if durable && live_until.map(|l| l < want).unwrap_or(false) {
                        bump.push((k.clone(), entry.clone()));
                    }
                }
                for (k, e) in bump {
                    st.map = st.map.insert(k, Some((e, Some(want))), &budget)?;
                }
                Ok(())
            })
            .unwrap();
    }

    // ---------------------------------------------------------------- calls

    fn raw_call(&self, contract: &Address, func: &str, args: &[Val]) -> Call {
        self.calls.set(self.calls.get() + 1);
        let env = &self.env;
        let argv: SVec<Val> = SVec::from_slice(env, args);
        let sym = Symbol::new(env, func);
        let r = env.try_invoke_contract::<Val, soroban_sdk::Error>(contract, &sym, argv);
        match r {
            Ok(Ok(v)) => {
                let ret = ScVal::try_from_val(env, &v).ok();
                Call {
                    ok: true,
                    ret,
                    err: String::new(),
                    events: self.read_events(),
                }
            }
            Ok(Err(_)) => Call {
                ok: false,
                ret: None,
                err: "conversion".into(),
                events: vec![],
            },
            Err(Ok(e)) => Call {
                ok: false,
                ret: None,
                err: format!("{:?}", e),
                events: vec![],
            },
            Err(Err(e)) => Call {
                ok: false,
                ret: None,
                err: format!("{:?}", e),
                events: vec![],
            },
        }
    }

    fn read_events(&self) -> Vec<Ev> {
        let evs = self.env.host().get_events().unwrap();
        let mut out = vec![];
        for he in evs.0.iter() {
            if he.failed_call || he.event.type_ != ContractEventType::Contract {
                continue;
            }
            let Some(Hash(id)) = he.event.contract_id.clone() else {
                continue;
            };
            let ContractEventBody::V0(b) = &he.event.body;
            out.push(Ev {
                contract: ScAddress::Contract(Hash(id)),
                topics: b.topics.to_vec(),
                data: b.data.clone(),
            });
        }
        out
    }

    /// Nonces are unique process-wide: a ledger snapshot (which holds consumed nonces) may be
    /// installed into a fresh world.
    fn fresh_nonce(&self) -> i64 {
        static NEXT: std::sync::atomic::AtomicI64 = std::sync::atomic::AtomicI64::new(1);
        let n = NEXT.fetch_add(1, std::sync::atomic::Ordering::Relaxed);
        self.nonce.set(n);
        n
    }

    fn entries_for(
        &self,
        who: &[Address],
        recorded: &[(ScAddress, SorobanAuthorizedInvocation)],
        mode: u8,
        only_fn: Option<&str>,
    ) -> Vec<SorobanAuthorizationEntry> {
        let mut out = vec![];
        for w in who {
            let sc: ScAddress = w.try_into().unwrap();
            for (addr, inv) in recorded {
                if *addr != sc {
                    continue;
                }
                if let Some(f) = only_fn {
                    let name = match &inv.function {
                        SorobanAuthorizedFunction::ContractFn(a) => a.function_name.to_utf8_string_lossy(),
                        _ => String::new(),
                    };
                    if name != f {
                        continue;
                    }
                }
                let mut inv = inv.clone();
                match mode {
                    1 => inv.sub_invocations = VecM::default(),
                    2 => alter_invocation(&mut inv),
                    _ => {}
                }
                out.push(SorobanAuthorizationEntry {
                    credentials: SorobanCredentials::Address(SorobanAddressCredentials {
                        address: sc.clone(),
                        nonce: self.fresh_nonce(),
                        signature_expiration_ledger: self.seq() + 100,
                        signature: ScVal::Void,
                    }),
                    root_invocation: inv,
                });
            }
        }
        out
    }

    /// Invocation trees the running code demands for this call, by address.
    pub fn record_auth(
        &self,
        contract: &Address,
        func: &str,
        args: &[Val],
    ) -> Vec<(ScAddress, SorobanAuthorizedInvocation)> {
        let snap = self.snap();
        self.env.mock_all_auths_allowing_non_root_auth();
        let _ = self.raw_call(contract, func, args);
        let payloads = self.env.host().get_recorded_auth_payloads().unwrap();
        self.env.set_auths(&[]);
        self.restore(&snap);
        payloads
            .into_iter()
            .filter_map(|p| p.address.map(|a| (a, p.invocation)))
            .collect()
    }

    pub fn call(&self, contract: &Address, func: &str, args: &[Val], auth: Auth) -> Call {
        match auth {
            Auth::Nobody => {
                self.env.set_auths(&[]);
                self.raw_call(contract, func, args)
            }
            Auth::Setup => {
                self.env.mock_all_auths_allowing_non_root_auth();
                let c = self.raw_call(contract, func, args);
                self.env.set_auths(&[]);
                c
            }
            Auth::ForOtherCall(who, oc, of, oa) => {
                let rec = self.record_auth(oc, of, oa);
                let entries = self.entries_for(who, &rec, 0, None);
                self.env.set_auths(&entries);
                let c = self.raw_call(contract, func, args);
                self.env.set_auths(&[]);
                c
            }
            Auth::By(who) | Auth::RootOnly(who) | Auth::Altered(who) | Auth::Only(who, _) => {
                if who.is_empty() {
                    self.env.set_auths(&[]);
                    return self.raw_call(contract, func, args);
                }
                let mode = match auth {
                    Auth::RootOnly(_) => 1,
                    Auth::Altered(_) => 2,
                    _ => 0,
                };
                let only = match auth {
                    Auth::Only(_, f) => Some(f),
                    _ => None,
                };
                let rec = self.record_auth(contract, func, args);
                let entries = self.entries_for(who, &rec, mode, only);
                self.env.set_auths(&entries);
                let c = self.raw_call(contract, func, args);
                self.env.set_auths(&[]);
                c
            }
        }
    }

    /// Read-only query under no authorisation; `None` when the call fails.
    pub fn query(&self, contract: &Address, func: &str, args: &[Val]) -> Option<ScVal> {
        self.env.set_auths(&[]);
        let c = self.raw_call(contract, func, args);
        if c.ok {
            c.ret
        } else {
            None
        }
    }

    pub fn v<T: IntoVal<Env, Val>>(&self, t: T) -> Val {
        t.into_val(&self.env)
    }

    pub fn sc_addr(&self, a: &Address) -> ScAddress {
        a.try_into().unwrap()
    }
    pub fn sc_addr_val(&self, a: &Address) -> ScVal {
        ScVal::Address(a.try_into().unwrap())
    }
}

/// Change the signed root invocation so that it authorises a *different* call: the last
/// argument is replaced by a different value of a harmless type (or an extra argument is
/// appended when there are none).
fn alter_invocation(inv: &mut SorobanAuthorizedInvocation) {
    if let SorobanAuthorizedFunction::ContractFn(InvokeContractArgs {
        contract_address,
        function_name,
        args,
    }) = &inv.function
    {
        let mut v: Vec<ScVal> = args.to_vec();
        match v.last_mut() {
            Some(last) => {
                *last = match last {
                    ScVal::Bool(b) => ScVal::Bool(!*b),
                    ScVal::U32(x) => ScVal::U32(x.wrapping_add(1)),
                    ScVal::U64(x) => ScVal::U64(x.wrapping_add(1)),
                    _ => ScVal::U32(0xdead),
                }
            }
            None => v.push(ScVal::U32(0xdead)),
        }
        inv.function = SorobanAuthorizedFunction::ContractFn(InvokeContractArgs {
            contract_address: contract_address.clone(),
            function_name: function_name.clone(),
            args: v.try_into().unwrap(),
        });
    }
}

pub fn sym(s: &str) -> ScVal {
    ScVal::Symbol(ScSymbol(s.try_into().unwrap()))
}

/// Does `ev` (already known to come from the right contract and have the right name)
/// carry every value in `must` (multiset inclusion over flattened leaves)?
/// The expected values must occur among the event's leaf values (topics, then data, flattened) in
/// the expected order, i.e. as a subsequence: extra fields are tolerated, but two fields that swap
/// places (sender and recipient, previous and new owner) are not.
pub fn carries(ev: &Ev, must: &[ScVal]) -> bool {
    let leaves = ev.leaves();
    let mut at = 0usize;
    for m in must {
        let mut flat = vec![];
        flatten(m, &mut flat);
        for f in flat {
            match leaves[at..].iter().position(|l| *l == f) {
                Some(i) => at += i + 1,
                None => return false,
            }
        }
    }
    true
}

/// An expected event: emitted by `contract`, first topic `name`, carrying `must`.
#[derive(Clone, Debug)]
pub struct EvPat {
    pub contract: ScAddress,
    pub name: &'static str,
    pub must: Vec<ScVal>,
}

/// Check that, among the events of a call, those named in `names_of_interest` are exactly the
/// expected patterns (one event per pattern, no second event of such a name). Events with
/// other names are ignored. Returns a description of the first discrepancy.
pub fn match_events(
    events: &[Ev],
    expected: &[EvPat],
    names_of_interest: &[&str],
) -> Result<(), String> {
    let mut used = vec![false; events.len()];
    for p in expected {
        let mut found = false;
        for (i, e) in events.iter().enumerate() {
            if used[i] || e.contract != p.contract || e.name() != p.name {
                continue;
            }
            if carries(e, &p.must) {
                used[i] = true;
                found = true;
                break;
            }
        }
        if !found {
            let same_name: Vec<&Ev> = events.iter().filter(|e| e.name() == p.name).collect();
            return Err(format!(
                "missing event {} carrying {:?}; events of that name: {:?}",
                p.name, p.must, same_name
            ));
        }
    }
    for (i, e) in events.iter().enumerate() {
        if !used[i] && names_of_interest.contains(&e.name().as_str()) {
            return Err(format!("unexpected extra event {:?}", e));
        }
    }
    Ok(())
}
