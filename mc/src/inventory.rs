//! Inventory of the entry points a contract exports, read from the current source tree.
//!
//! Every `pub fn` of an inherent `#[contractimpl] impl` block, and every `fn` of a
//! `#[contractimpl] impl Trait for Contract` block, becomes a callable contract function. A check
//! that only drives the entry points it knows cannot see a helper that a clean-up exported by
//! accident, so the scenarios compare the source's inventory with the list they drive and call
//! whatever is new without any authorisation, with arguments synthesised from the parameter types.

use crate::refs::*;
use crate::world::World;
use soroban_sdk::{Address, Val};
use std::path::Path;

#[derive(Clone, Debug)]
pub struct FnSig {
    pub name: String,
    /// (parameter name, type as written), without the `Env` parameter
    pub params: Vec<(String, String)>,
}

fn strip_comments(src: &str) -> String {
    let mut out = String::with_capacity(src.len());
    for line in src.lines() {
        let l = match line.find("//") {
            Some(i) => &line[..i],
            None => line,
        };
        out.push_str(l);
        out.push('\n');
    }
    out
}

/// the block `{ ... }` starting at the first `{` at or after `from`; returns (body, end index)
fn block_at(s: &str, from: usize) -> Option<(&str, usize)> {
    let start = from + s[from..].find('{')?;
    let mut depth = 0usize;
    for (i, c) in s[start..].char_indices() {
        match c {
            '{' => depth += 1,
            '}' => {
                depth -= 1;
                if depth == 0 {
                    return Some((&s[start + 1..start + i], start + i));
                }
            }
            _ => {}
        }
    }
    None
}

fn split_top_level(s: &str) -> Vec<String> {
    let mut v = vec![];
    let mut depth = 0i32;
    let mut cur = String::new();
    for c in s.chars() {
        match c {
            '<' | '(' | '[' => { depth += 1; cur.push(c) }
            '>' | ')' | ']' => { depth -= 1; cur.push(c) }
            ',' if depth == 0 => { v.push(cur.trim().to_string()); cur.clear() }
            _ => cur.push(c),
        }
    }
    if !cur.trim().is_empty() {
        v.push(cur.trim().to_string());
    }
    v
}

/// Exported functions of all `#[contractimpl]` blocks in the `.rs` files directly under `dir`.
pub fn exported_fns(dir: &Path) -> Vec<FnSig> {
    // the tree does not change while a check runs: read each directory once per process
    static CACHE: std::sync::Mutex<Option<std::collections::HashMap<std::path::PathBuf, Vec<FnSig>>>> = std::sync::Mutex::new(None);
    if let Some(v) = CACHE.lock().unwrap().get_or_insert_with(Default::default).get(dir) {
        return v.clone();
    }
    let v = scan_exported_fns(dir);
    CACHE.lock().unwrap().get_or_insert_with(Default::default).insert(dir.to_path_buf(), v.clone());
    v
}

fn scan_exported_fns(dir: &Path) -> Vec<FnSig> {
    let mut out: Vec<FnSig> = vec![];
    let mut files: Vec<_> = std::fs::read_dir(dir).map(|d| d.filter_map(|e| e.ok()).map(|e| e.path()).collect()).unwrap_or_default();
    files.sort();
    for f in files {
        if f.extension().map(|e| e != "rs").unwrap_or(true) {
            continue;
        }
        let src = strip_comments(&std::fs::read_to_string(&f).unwrap_or_default());
        let mut pos = 0;
        while let Some(i) = src[pos..].find("#[contractimpl]") {
            let at = pos + i + "#[contractimpl]".len();
            let Some(impl_at) = src[at..].find("impl").map(|k| at + k) else { break };
            let Some(brace) = src[impl_at..].find('{').map(|k| impl_at + k) else { break };
            let header = &src[impl_at..brace];
            let trait_impl = header.contains(" for ");
            let Some((body, end)) = block_at(&src, impl_at) else { break };
            // functions at depth 0 of the impl body
            let mut depth = 0i32;
            let bytes: Vec<char> = body.chars().collect();
            let mut k = 0;
            let text: String = bytes.iter().collect();
            while k < bytes.len() {
                match bytes[k] {
                    '{' => depth += 1,
                    '}' => depth -= 1,
                    'f' if depth == 0 && text[k..].starts_with("fn ") && (k == 0 || !bytes[k - 1].is_alphanumeric()) => {
                        let before = text[..k].trim_end();
                        let is_pub = before.ends_with("pub");
                        if trait_impl || is_pub {
                            let rest = &text[k + 3..];
                            let name: String = rest.chars().take_while(|c| c.is_alphanumeric() || *c == '_').collect();
                            if let Some(po) = rest.find('(') {
                                // matching parenthesis
                                let mut d = 0i32;
                                let mut pe = po;
                                for (j, c) in rest[po..].char_indices() {
                                    match c { '(' => d += 1, ')' => { d -= 1; if d == 0 { pe = po + j; break; } } _ => {} }
                                }
                                let params: Vec<(String, String)> = split_top_level(&rest[po + 1..pe])
                                    .into_iter()
                                    .filter_map(|p| p.split_once(':').map(|(n, t)| (n.trim().to_string(), t.split_whitespace().collect::<Vec<_>>().join(" "))))
                                    .filter(|(_, t)| t.trim_start_matches('&') != "Env")
                                    .collect();
                                out.push(FnSig { name, params });
                            }
                        }
                    }
                    _ => {}
                }
                k += 1;
            }
            pos = end;
        }
        // interfaces implemented by a derive macro export their functions too (the generated
        // `#[contractimpl] impl ... for Contract` never appears in the source)
        let mut pos = 0;
        while let Some(i) = src[pos..].find("#[derive(") {
            let at = pos + i + "#[derive(".len();
            let Some(close) = src[at..].find(')').map(|k| at + k) else { break };
            for d in src[at..close].split(',').map(|d| d.trim()) {
                let f = |name: &str, params: &[(&str, &str)]| FnSig { name: name.into(), params: params.iter().map(|(n, t)| (n.to_string(), t.to_string())).collect() };
                match d {
                    "Ownable" => { out.push(f("owner", &[])); out.push(f("transfer_ownership", &[("new_owner", "Address")])); }
                    "Operatable" => { out.push(f("operator", &[])); out.push(f("transfer_operatorship", &[("new_operator", "Address")])); }
                    "Upgradable" => {
                        out.push(f("version", &[]));
                        out.push(f("upgrade", &[("new_wasm_hash", "BytesN<32>")]));
                        out.push(f("migrate", &[("migration_data", "()")]));
                    }
                    _ => {}
                }
            }
            pos = close;
        }
    }
    out
}

static EXTRA_STRINGS: std::sync::Mutex<Vec<String>> = std::sync::Mutex::new(Vec::new());

/// Strings of the scenario's own universe (chain names, message ids) that `String` parameters of
/// unknown functions are filled from, ahead of the generic ones.
pub fn set_strings(v: &[&str]) {
    *EXTRA_STRINGS.lock().unwrap() = v.iter().map(|s| s.to_string()).collect();
}

/// A few argument values for a parameter of the given written type; None when the type is not
/// one the harness can build (the function is then reported as not driven).
pub fn synth(w: &World, ty: &str, addresses: &[Address]) -> Option<Vec<Val>> {
    let env = &w.env;
    let t = ty.trim().trim_start_matches('&').trim();
    Some(match t {
        "Address" => addresses.iter().map(|a| a.to_val()).collect(),
        "String" => {
            let mut v: Vec<Val> = EXTRA_STRINGS.lock().unwrap().iter().map(|s| to_val(env, &sstr(s))).collect();
            v.extend([to_val(env, &sstr("ethereum")), to_val(env, &sstr(""))]);
            v
        }
        "Bytes" => vec![to_val(env, &sbytes(&[0x12, 0x34]))],
        "BytesN<32>" => vec![to_val(env, &sbytes(&[7u8; 32]))],
        "u32" => vec![w.v(0u32), w.v(1u32)],
        "u64" => vec![w.v(0u64), w.v(1u64)],
        "u128" => vec![w.v(0u128), w.v(1u128)],
        "i128" => vec![w.v(0i128), w.v(1i128), w.v(-1i128)],
        "bool" => vec![w.v(false), w.v(true)],
        "()" => vec![Val::VOID.to_val()],
        _ if t.starts_with("Option<") => vec![Val::VOID.to_val()],
        _ if t.starts_with("Vec<") => vec![to_val(env, &svec(vec![]))],
        _ => return None,
    })
}

/// All argument tuples (capped) for a signature, or None if a parameter type is unsupported.
pub fn arg_tuples(w: &World, sig: &FnSig, addresses: &[Address], cap: usize) -> Option<Vec<Vec<Val>>> {
    let per: Vec<Vec<Val>> = sig.params.iter().map(|(_, t)| synth(w, t, addresses)).collect::<Option<Vec<_>>>()?;
    let mut tuples: Vec<Vec<Val>> = vec![vec![]];
    for choices in per {
        let mut next = vec![];
        for t in &tuples {
            for c in &choices {
                if next.len() >= cap { break; }
                let mut t2 = t.clone();
                t2.push(*c);
                next.push(t2);
            }
        }
        tuples = next;
    }
    Some(tuples)
}

static NOTED: std::sync::Mutex<std::collections::BTreeSet<String>> = std::sync::Mutex::new(std::collections::BTreeSet::new());

/// Calls to make (contract, function, arguments) for every exported function of the listed
/// contracts that is not in the scenario's inventory of known entry points. Prints one NOTE line
/// per such function (once per process).
pub fn unknown_calls(w: &World, id: &str, targets: &[(&Address, &str, &[&str])], addresses: &[Address], cap: usize) -> Vec<(Address, String, Vec<Val>)> {
    let mut out = vec![];
    for (contract, dir, known) in targets {
        for sig in exported_fns(Path::new(dir)) {
            if known.contains(&sig.name.as_str()) {
                continue;
            }
            let key = format!("{}:{}:{}", id, dir, sig.name);
            match arg_tuples(w, &sig, addresses, cap) {
                Some(tuples) => {
                    if NOTED.lock().unwrap().insert(key) {
                        println!("NOTE {}: exported function `{}` ({}) is not in the check's inventory; driving it unauthorised with {} argument tuples per state", id, sig.name, dir, tuples.len());
                    }
                    for t in tuples {
                        out.push(((*contract).clone(), sig.name.clone(), t));
                    }
                }
                None => {
                    if NOTED.lock().unwrap().insert(key) {
                        println!("NOTE {}: exported function `{}` ({}) is not in the check's inventory and has a parameter type the harness cannot build; it was not driven", id, sig.name, dir);
                    }
                }
            }
        }
    }
    out
}

pub const GATEWAY_KNOWN: [&str; 21] = [
    "owner", "transfer_ownership", "operator", "transfer_operatorship", "version", "upgrade", "migrate",
    "__constructor", "call_contract", "is_message_approved", "is_message_executed", "validate_message", "domain_separator",
    "minimum_rotation_delay", "previous_signers_retention", "approve_messages", "rotate_signers", "epoch", "epoch_by_signers_hash",
    "signers_hash_by_epoch", "validate_proof",
];
pub const GAS_KNOWN: [&str; 11] = ["owner", "transfer_ownership", "version", "upgrade", "migrate", "__constructor", "pay_gas", "add_gas", "collect_fees", "refund", "gas_collector"];
pub const OPERATORS_KNOWN: [&str; 10] = ["owner", "transfer_ownership", "version", "upgrade", "migrate", "__constructor", "is_operator", "add_operator", "remove_operator", "execute"];
pub const ITS_KNOWN: [&str; 26] = [
    "owner", "transfer_ownership", "version", "upgrade", "migrate",
    "__constructor", "chain_name", "gas_service", "interchain_token_wasm_hash", "its_hub_address", "its_hub_chain_name", "is_trusted_chain",
    "set_trusted_chain", "remove_trusted_chain", "interchain_token_deploy_salt", "interchain_token_id", "canonical_token_deploy_salt",
    "token_address", "token_manager_type", "deploy_interchain_token", "deploy_remote_interchain_token", "deploy_remote_canonical_token",
    "interchain_transfer", "register_canonical_token", "gateway", "execute",
];
/// (the asset-interface stubs set_authorized / authorized / clawback are deliberately absent: they
/// abort today, and are driven like any unknown function should they ever do something)
pub const TOKEN_KNOWN: [&str; 24] = [
    "version", "upgrade", "migrate",
    "__constructor", "set_admin", "admin", "mint", "token_id", "is_minter", "mint_from", "add_minter", "remove_minter", "allowance", "approve",
    "balance", "transfer", "transfer_from", "burn", "burn_from", "decimals", "name", "symbol", "owner", "transfer_ownership",
];
pub const EXAMPLE_KNOWN: [&str; 5] = ["gateway", "execute", "__constructor", "gas_service", "send"];
