//! C06: admin operations need the current role holder's authorisation.
//! Per contract: every administrative entry point x every candidate authoriser, over all
//! histories of role transfers (incl. to self and back), explored to fixpoint.

use axmc::aux::{Principal, Probe};
use axmc::explore::*;
use axmc::gw::*;
use axmc::its::{metadata_scval, token_scval};
use axmc::refs::*;
use axmc::world::*;
use serde::{Deserialize, Serialize};
use soroban_sdk::xdr::ScVal;
use soroban_sdk::{Address, Val};

// principals: 0 = initial owner, 1 = initial operator / gas collector, 2 = successor /
// beneficiary, 3 = stranger
const NP: usize = 4;

#[derive(Clone, Copy, Debug, PartialEq, Eq, Hash, Serialize, Deserialize)]
enum Ep {
    TransferOwnership(usize),
    SetAdmin(usize),
    TransferOperatorship(usize),
    Upgrade,
    Migrate,
    RotateBypass,
    /// bypass rotation authorised by an older, still retained signer set
    RotateBypassOld,
    /// a rotation WITHOUT bypass before the minimum delay has elapsed: refused for everyone
    RotateEarlyNoBypass,
    CollectFees,
    Refund,
    /// collect_fees with the collector itself as the receiver (still the collector's call to make)
    CollectFeesToCollector,
    /// refunds of amount 0 and -1: whatever the collector's own call does, nobody else's may succeed
    RefundZero,
    RefundNegative,
    AddOperator,
    RemoveOperator,
    SetTrusted,
    RemoveTrusted,
    AddMinter,
    RemoveMinter,
    Mint,
    /// not an entry point: 20 ledgers pass (bounded)
    AdvanceLedger,
}

#[derive(Clone, Copy, Debug, PartialEq, Eq, Hash, Serialize, Deserialize)]
enum By {
    P(usize),
    Nobody,
    /// the current holder, but its signature covers a call with altered arguments
    HolderAltered,
    /// the current holder authorised the same entry point of *another* contract instance
    HolderOtherContract,
}

#[derive(Clone, Debug, Serialize, Deserialize)]
struct Act {
    ep: Ep,
    by: By,
}

#[derive(Clone, Hash)]
struct Model {
    advances: u8,
    owner: usize,
    operator: usize,
    window: bool,
    flag: bool,       // operator member / trusted chain set / P2 is minter
    budget: u8,       // bounded counters: rotations, payouts, mints
    epoch: usize,
    /// gateway: the minimum rotation delay has passed since the last rotation (or the deployment)
    elapsed: bool,
}

struct Ctx {
    w: World,
    kind: usize,
    target: Address,
    /// a second instance of the same contract with the same initial roles
    twin: Address,
    p: Vec<Address>,
    keys: Keys,
    asset: Address,
    probe: Address,
}

struct C06;

const NAMES: [&str; 5] = ["gateway", "gas-service", "operators", "its", "token"];

fn pool(i: usize) -> SetSpec {
    SetSpec { signers: vec![(0, 1)], threshold: 1, nonce: 10 + i as u8 }
}

impl C06 {
    fn eps(&self, kind: usize) -> Vec<Ep> {
        // principal 4 is the all-zero account (renouncing), principal 5 the administered contract itself:
        // once a role sits there nobody can exercise it any more
        let mut v = vec![Ep::TransferOwnership(2), Ep::TransferOwnership(0), Ep::TransferOwnership(4), Ep::TransferOwnership(5), Ep::Upgrade, Ep::Migrate];
        match kind {
            0 => v.extend([Ep::TransferOperatorship(2), Ep::TransferOperatorship(1), Ep::TransferOperatorship(4), Ep::TransferOperatorship(5), Ep::RotateBypass, Ep::RotateBypassOld, Ep::RotateEarlyNoBypass]),
            1 => v.extend([Ep::CollectFees, Ep::CollectFeesToCollector, Ep::Refund, Ep::RefundZero, Ep::RefundNegative]),
            2 => v.extend([Ep::AddOperator, Ep::RemoveOperator]),
            3 => v.extend([Ep::SetTrusted, Ep::RemoveTrusted]),
            _ => v.extend([Ep::SetAdmin(2), Ep::SetAdmin(0), Ep::SetAdmin(4), Ep::AddMinter, Ep::RemoveMinter, Ep::Mint]),
        }
        v
    }

    fn register(&self, w: &World, kind: usize, p: &[Address], keys: &Keys, asset: &Address) -> Address {
        let env = &w.env;
        match kind {
            0 => {
                // deployed at t = 1e6 with a minimum rotation delay of 1e5 s: only the operator's bypass can rotate
                w.set_time(1_000_000);
                register_gateway(w, None, &p[0], &p[1], &DOMAIN, 100_000, 5, &[pool(0).raw(keys)])
            }
            1 => {
                let g = env.register(axelar_gas_service::AxelarGasService, (p[0].clone(), p[1].clone()));
                let c = w.call(asset, "mint", &[g.to_val(), w.v(4i128)], Auth::Setup);
                assert!(c.ok);
                g
            }
            2 => env.register(axelar_operators::AxelarOperators, (p[0].clone(),)),
            3 => env.register(
                interchain_token_service::InterchainTokenService,
                (p[0].clone(), p[3].clone(), p[3].clone(), to_val(env, &sstr("hub")), to_val(env, &sstr("stellar")), to_val(env, &sbytes(&sha256(b"")))),
            ),
            _ => env.register(
                interchain_token::InterchainToken,
                (p[0].clone(), Option::<Address>::None, to_val(env, &sbytes(&[1u8; 32])), to_val(env, &metadata_scval(b"T", b"T", 1))),
            ),
        }
    }

    /// (function, arguments) of the entry point in the current model state
    fn call_of(&self, ctx: &Ctx, m: &Model, ep: Ep) -> (&'static str, Vec<Val>) {
        let w = &ctx.w;
        let env = &w.env;
        let p = &ctx.p;
        match ep {
            Ep::TransferOwnership(t) => ("transfer_ownership", vec![p[t].to_val()]),
            Ep::SetAdmin(t) => ("set_admin", vec![p[t].to_val()]),
            Ep::TransferOperatorship(t) => ("transfer_operatorship", vec![p[t].to_val()]),
            Ep::Upgrade => ("upgrade", vec![to_val(env, &sbytes(&sha256(b"")))]),
            Ep::Migrate => ("migrate", vec![Val::VOID.to_val()]),
            Ep::RotateEarlyNoBypass => {
                let next = pool(m.epoch).raw(&ctx.keys);
                let proof = honest_proof(&ctx.keys, &pool(m.epoch - 1), &DOMAIN, &next.rotation_data_hash());
                ("rotate_signers", vec![to_val(env, &next.scval()), to_val(env, &proof), w.v(false)])
            }
            Ep::RotateBypass | Ep::RotateBypassOld => {
                let next = pool(m.epoch).raw(&ctx.keys);
                let signer = if ep == Ep::RotateBypassOld { m.epoch - 2 } else { m.epoch - 1 };
                let proof = honest_proof(&ctx.keys, &pool(signer), &DOMAIN, &next.rotation_data_hash());
                ("rotate_signers", vec![to_val(env, &next.scval()), to_val(env, &proof), w.v(true)])
            }
            Ep::CollectFees => ("collect_fees", vec![p[3].to_val(), to_val(env, &token_scval(&w.sc_addr(&ctx.asset), 1))]),
            Ep::CollectFeesToCollector => ("collect_fees", vec![p[1].to_val(), to_val(env, &token_scval(&w.sc_addr(&ctx.asset), 1))]),
            Ep::Refund => ("refund", vec![to_val(env, &sstr("m")), p[3].to_val(), to_val(env, &token_scval(&w.sc_addr(&ctx.asset), 1))]),
            Ep::RefundZero => ("refund", vec![to_val(env, &sstr("m")), p[3].to_val(), to_val(env, &token_scval(&w.sc_addr(&ctx.asset), 0))]),
            Ep::RefundNegative => ("refund", vec![to_val(env, &sstr("m")), p[3].to_val(), to_val(env, &token_scval(&w.sc_addr(&ctx.asset), -1))]),
            Ep::AddOperator => ("add_operator", vec![p[2].to_val()]),
            Ep::RemoveOperator => ("remove_operator", vec![p[2].to_val()]),
            Ep::SetTrusted => ("set_trusted_chain", vec![to_val(env, &sstr("ethereum"))]),
            Ep::RemoveTrusted => ("remove_trusted_chain", vec![to_val(env, &sstr("ethereum"))]),
            Ep::AddMinter => ("add_minter", vec![p[2].to_val()]),
            Ep::RemoveMinter => ("remove_minter", vec![p[2].to_val()]),
            Ep::Mint => ("mint", vec![p[3].to_val(), w.v(1i128)]),
            Ep::AdvanceLedger => unreachable!(),
        }
    }

    /// (role holder required, non-authorisation precondition)
    fn needs(&self, m: &Model, ep: Ep) -> (usize, bool) {
        match ep {
            Ep::TransferOwnership(_) | Ep::SetAdmin(_) | Ep::Upgrade => (m.owner, true),
            Ep::Migrate => (m.owner, m.window),
            Ep::TransferOperatorship(_) => (m.operator, true),
            Ep::RotateBypass | Ep::RotateBypassOld => (m.operator, true),
            Ep::RotateEarlyNoBypass => (m.operator, false),
            Ep::CollectFees | Ep::CollectFeesToCollector | Ep::Refund | Ep::RefundZero | Ep::RefundNegative => (1, true),
            Ep::AddOperator | Ep::SetTrusted => (m.owner, !m.flag),
            Ep::RemoveOperator | Ep::RemoveTrusted => (m.owner, m.flag),
            Ep::AddMinter | Ep::RemoveMinter => (m.owner, true),
            Ep::AdvanceLedger => unreachable!(),
            // P0 is a minter since construction (never removed here); P2 iff it was added
            Ep::Mint => (m.owner, (m.owner == 0 || (m.owner == 2 && m.flag))),
        }
    }
}

impl Scenario for C06 {
    type Ctx = Ctx;
    type M = Model;
    type A = Act;

    fn id(&self) -> &'static str { "C06" }
    fn n_configs(&self) -> usize { 5 }
    fn config_label(&self, c: usize) -> String { NAMES[c].into() }
    fn world<'a>(&self, ctx: &'a Ctx) -> &'a World { &ctx.w }

    fn build(&self, c: usize) -> (Ctx, Model) {
        let w = World::new();
        let env = &w.env;
        let p: Vec<Address> = (0..NP).map(|_| env.register(Principal, ())).collect();
        let admin = env.register(Principal, ());
        let asset = env.register_stellar_asset_contract_v2(admin).address();
        let keys = Keys::new(1);
        let target = self.register(&w, c, &p, &keys, &asset);
        let twin = self.register(&w, c, &p, &keys, &asset);
        let probe = env.register(Probe, ());
        let mut p = p;
        p.push(Address::from_string(&soroban_sdk::String::from_str(env, "GAAAAAAAAAAAAAAAAAAAAAAAAAAAAAAAAAAAAAAAAAAAAAAAAAAAAWHF")));
        p.push(target.clone());
        (
            Ctx { w, kind: c, target, twin, p, keys, asset, probe },
            Model { advances: 0, owner: 0, operator: 1, window: false, flag: false, budget: 3, epoch: 1, elapsed: false },
        )
    }

    fn actions(&self, ctx: &Ctx, m: &Model) -> Vec<Act> {
        let mut v = vec![];
        // two kinds of waiting, each once: ledgers pass with next to no time (every temporary entry
        // written so far is gone afterwards), and - on the gateway - the rotation delay passes
        if m.advances & 1 == 0 {
            v.push(Act { ep: Ep::AdvanceLedger, by: By::Nobody });
        }
        if ctx.kind == 0 && m.advances & 2 == 0 {
            v.push(Act { ep: Ep::AdvanceLedger, by: By::P(0) });
        }
        for ep in self.eps(ctx.kind) {
            // payouts, mints and rotations are bounded so that the state space stays finite
            if m.budget == 0 && matches!(ep, Ep::RotateBypass | Ep::RotateBypassOld | Ep::RotateEarlyNoBypass | Ep::CollectFees | Ep::CollectFeesToCollector | Ep::Refund | Ep::Mint) {
                continue;
            }
            if ep == Ep::RotateBypassOld && m.epoch < 2 {
                continue;
            }
            for by in [By::P(0), By::P(1), By::P(2), By::P(3), By::Nobody, By::HolderAltered, By::HolderOtherContract] {
                // nobody can sign for the all-zero account or for the contract itself
                if matches!(by, By::HolderAltered | By::HolderOtherContract) && self.needs(m, ep).0 >= NP {
                    continue;
                }
                v.push(Act { ep, by });
            }
        }
        v
    }

    fn step(&self, ctx: &Ctx, m: &mut Model, a: &Act, out: &mut StepOut) {
        let w = &ctx.w;
        let p = &ctx.p;
        if a.ep == Ep::AdvanceLedger {
            out.kind = "advance";
            out.accepted = true;
            w.set_seq(w.seq() + 20);
            if a.by == By::Nobody {
                w.set_time(w.now() + 100);
                m.advances |= 1;
            } else {
                // exactly the minimum rotation delay passes: from then until the next rotation
                // (bypassed or not) anybody may rotate with a proof of the latest set
                w.set_time(w.now() + 100_000);
                m.elapsed = true;
                m.advances |= 2;
            }
            return;
        }
        out.kind = match a.ep {
            Ep::TransferOwnership(_) | Ep::SetAdmin(_) | Ep::TransferOperatorship(_) => "role-transfer",
            Ep::Upgrade | Ep::Migrate => "upgrade-migrate",
            _ => "admin-op",
        };
        let (func, args) = self.call_of(ctx, m, a.ep);
        let (holder, pre) = self.needs(m, a.ep);
        let h0 = w.state_hash();
        let holder_arr = [p[holder].clone()];
        let call = match a.by {
            By::P(i) => w.call(&ctx.target, func, &args, Auth::By(&[p[i].clone()])),
            By::Nobody => w.call(&ctx.target, func, &args, Auth::Nobody),
            By::HolderAltered => w.call(&ctx.target, func, &args, Auth::Altered(&holder_arr)),
            By::HolderOtherContract => w.call(&ctx.target, func, &args, Auth::ForOtherCall(&holder_arr, &ctx.twin, func, &args)),
        };
        out.accepted = call.ok;
        let authorised = a.by == By::P(holder);
        // a rotation without bypass needs nobody's authorisation, only the elapsed delay
        let want = if a.ep == Ep::RotateEarlyNoBypass { m.elapsed } else { authorised && pre };
        // the statement does not say what the collector's own refund of nothing does
        let unspecified = authorised && matches!(a.ep, Ep::RefundZero | Ep::RefundNegative);
        out.expect(unspecified || call.ok == want, "admin.outcome", || {
            format!(
                "{}: {:?} by {:?} (role holder {}, owner {}, operator {}, precondition {}): ok={} ({}), model {}",
                NAMES[ctx.kind], a.ep, a.by, holder, m.owner, m.operator, pre, call.ok, call.err, want
            )
        });
        if !call.ok {
            out.expect(h0 == w.state_hash(), "admin.refused-but-changed-state", || format!("{:?}", a));
            return;
        }
        if !want { return; }
        let tc = w.sc_addr(&ctx.target);
        match a.ep {
            Ep::TransferOwnership(t) | Ep::SetAdmin(t) => {
                let r = match_events(
                    &call.events,
                    &[EvPat { contract: tc.clone(), name: "ownership_transferred", must: vec![w.sc_addr_val(&p[m.owner]), w.sc_addr_val(&p[t])] }],
                    &["ownership_transferred", "operatorship_transferred"],
                );
                out.expect(r.is_ok(), "transfer.event", || r.unwrap_err());
                m.owner = t;
            }
            Ep::TransferOperatorship(t) => {
                let r = match_events(
                    &call.events,
                    &[EvPat { contract: tc.clone(), name: "operatorship_transferred", must: vec![w.sc_addr_val(&p[m.operator]), w.sc_addr_val(&p[t])] }],
                    &["ownership_transferred", "operatorship_transferred"],
                );
                out.expect(r.is_ok(), "transfer.event", || r.unwrap_err());
                m.operator = t;
            }
            Ep::Upgrade => m.window = true,
            Ep::Migrate => m.window = false,
            Ep::RotateBypass | Ep::RotateBypassOld | Ep::RotateEarlyNoBypass => { m.budget -= 1; m.epoch += 1; m.elapsed = false; }
            Ep::CollectFees | Ep::CollectFeesToCollector | Ep::Refund | Ep::Mint => m.budget -= 1,
            Ep::RefundZero | Ep::RefundNegative => {}
            Ep::AddOperator | Ep::SetTrusted => m.flag = true,
            Ep::RemoveOperator | Ep::RemoveTrusted => m.flag = false,
            Ep::AddMinter => m.flag = true,
            Ep::RemoveMinter => m.flag = false,
            Ep::AdvanceLedger => {}
        }
    }

    fn probe(&self, ctx: &Ctx, m: &Model, out: &mut StepOut) {
        self.role_queries(ctx, m, out);
        // entry points the check does not drive by name: called with nobody's authorisation they
        // must leave every role and every administered setting where it was
        let w = &ctx.w;
        let (dir, known): (&str, &[&str]) = match ctx.kind {
            0 => ("/repo/contracts/axelar-gateway/src", &axmc::inventory::GATEWAY_KNOWN),
            1 => ("/repo/contracts/axelar-gas-service/src", &axmc::inventory::GAS_KNOWN),
            2 => ("/repo/contracts/axelar-operators/src", &axmc::inventory::OPERATORS_KNOWN),
            3 => ("/repo/contracts/interchain-token-service/src", &axmc::inventory::ITS_KNOWN),
            _ => ("/repo/contracts/interchain-token/src", &axmc::inventory::TOKEN_KNOWN),
        };
        let addresses = [ctx.p[3].clone(), ctx.p[2].clone(), ctx.target.clone()];
        let targets: [(&Address, &str, &[&str]); 1] = [(&ctx.target, dir, known)];
        self.authority_matrix(ctx, out, "");
        let everybody: Vec<Address> = ctx.p[0..NP].to_vec();
        for (contract, func, args) in axmc::inventory::unknown_calls(w, "C06", &targets, &addresses, 32) {
            let snap = w.snap();
            let call = w.call(&contract, &func, &args, Auth::Nobody);
            if call.ok {
                let mut o = StepOut::default();
                self.role_queries(ctx, m, &mut o);
                out.checks += o.checks;
                for mm in o.mismatches {
                    out.fail("unknown-entry-point.changed-administration", format!("after `{}` (not among the known entry points) was called with nobody's authorisation: {} :: {}", func, mm.sig, mm.detail));
                }
            }
            w.restore(&snap);
            // with every principal's authorisation such a function may do what it likes, but what the
            // role queries report afterwards must still be who can administer
            let snap = w.snap();
            let call = w.call(&contract, &func, &args, Auth::By(&everybody));
            if call.ok {
                self.authority_matrix(ctx, out, &format!("after `{}` (not among the known entry points) was called with every principal's authorisation: ", func));
            }
            w.restore(&snap);
        }
    }

    fn must_succeed_kinds(&self) -> Vec<&'static str> {
        vec!["role-transfer", "upgrade-migrate", "admin-op"]
    }
}

impl C06 {
    /// Who can administer, compared with what the role queries report (not with the model): for every
    /// principal, a role-gated call succeeds iff the query names that principal.
    fn authority_matrix(&self, ctx: &Ctx, out: &mut StepOut, context: &str) {
        let w = &ctx.w;
        let p = &ctx.p;
        let env = &w.env;
        let fee = |amount: i128| to_val(env, &token_scval(&w.sc_addr(&ctx.asset), amount));
        let mut gated: Vec<(&str, &str, Vec<Val>)> = vec![];
        if ctx.kind != 4 {
            gated.push(("owner", "transfer_ownership", vec![p[3].to_val()]));
        }
        match ctx.kind {
            0 => gated.push(("operator", "transfer_operatorship", vec![p[3].to_val()])),
            1 => {
                let held = w.query(&ctx.asset, "balance", &[ctx.target.to_val()]).and_then(|v| i128_of(&v)).unwrap_or(0);
                if held >= 1 {
                    gated.push(("gas_collector", "collect_fees", vec![p[3].to_val(), fee(1)]));
                    gated.push(("gas_collector", "refund", vec![to_val(env, &sstr("m")), p[3].to_val(), fee(1)]));
                }
            }
            _ => {}
        }
        for (query, func, args) in gated {
            let holder = w.query(&ctx.target, query, &[]);
            for i in 0..NP {
                let snap = w.snap();
                let c = w.call(&ctx.target, func, &args, Auth::By(&[p[i].clone()]));
                w.restore(&snap);
                let named = holder == Some(w.sc_addr_val(&p[i]));
                out.expect(c.ok == named, "authority.not-what-the-role-query-reports", || {
                    format!("{}{}: {}() reports {:?}; `{}` authorised by principal {} -> ok={} ({})", context, NAMES[ctx.kind], query, holder, func, i, c.ok, c.err)
                });
            }
        }
    }

    fn role_queries(&self, ctx: &Ctx, m: &Model, out: &mut StepOut) {
        let w = &ctx.w;
        let p = &ctx.p;
        let q = w.query(&ctx.target, "owner", &[]);
        out.expect(q == Some(w.sc_addr_val(&p[m.owner])), "probe.owner", || format!("{:?} vs principal {}", q, m.owner));
        match ctx.kind {
            0 => {
                let q = w.query(&ctx.target, "operator", &[]);
                out.expect(q == Some(w.sc_addr_val(&p[m.operator])), "probe.operator", || format!("{:?} vs principal {}", q, m.operator));
                let q = w.query(&ctx.target, "epoch", &[]);
                out.expect(q == Some(su64(m.epoch as u64)), "probe.epoch", || format!("{:?} vs {}", q, m.epoch));
            }
            1 => {
                let held = w.query(&ctx.asset, "balance", &[ctx.target.to_val()]).and_then(|v| i128_of(&v));
                out.expect(held == Some(1 + m.budget as i128), "probe.gas-held", || format!("{:?} vs {}", held, 1 + m.budget));
            }
            2 => {
                let q = w.query(&ctx.target, "is_operator", &[p[2].to_val()]);
                out.expect(q == Some(ScVal::Bool(m.flag)), "probe.is_operator", || format!("{:?} vs {}", q, m.flag));
                // the set change must have taken effect: the account can act as operator iff it is in the set
                let env = &w.env;
                let args: soroban_sdk::Vec<Val> = soroban_sdk::Vec::from_slice(env, &[w.v(2i128), w.v(3i128)]);
                let snap = w.snap();
                let c = w.call(
                    &ctx.target,
                    "execute",
                    &[p[2].to_val(), ctx.probe.to_val(), soroban_sdk::Symbol::new(env, "add").to_val(), args.to_val()],
                    Auth::By(&[p[2].clone()]),
                );
                w.restore(&snap);
                out.expect(c.ok == m.flag, "probe.operator-effect", || format!("execute by the account: ok={} ({}), member {}", c.ok, c.err, m.flag));
            }
            3 => {
                let q = w.query(&ctx.target, "is_trusted_chain", &[to_val(&w.env, &sstr("ethereum"))]);
                out.expect(q == Some(ScVal::Bool(m.flag)), "probe.is_trusted_chain", || format!("{:?} vs {}", q, m.flag));
            }
            _ => {
                let q = w.query(&ctx.target, "is_minter", &[p[2].to_val()]);
                out.expect(q == Some(ScVal::Bool(m.flag)), "probe.is_minter", || format!("{:?} vs {}", q, m.flag));
                let b = w.query(&ctx.target, "balance", &[p[3].to_val()]).and_then(|v| i128_of(&v));
                out.expect(b == Some(3 - m.budget as i128), "probe.minted", || format!("{:?} vs {}", b, 3 - m.budget as i128));
            }
        }
    }

}

fn main() {
    main_for(|tier| {
        let mut o = Opts::new(tier, if tier == "thorough" { 14 } else { 9 });
        o.min_depth = 4;
        o.xcheck = tier == "thorough";
        o.rule = "per contract (gateway, gas service, operators, ITS, interchain token): every administrative entry point (ownership / operatorship transfer to a successor, to self and back, to the all-zero account and to the contract itself (after which every administrative call is refused for every authoriser); upgrade; migrate; operator-bypass rotation with a proof from the latest and from an older retained set; a non-bypass rotation (refused for every authoriser until the minimum delay has passed since the last rotation of either kind, accepted for every authoriser afterwards); collect_fees (to a third party and to the collector itself); refund (also of amount 0 and -1, which nobody but the collector may get accepted); add/remove operator; set/remove trusted chain; add/remove minter; owner mint; set_admin) x every candidate authoriser {initial owner, initial operator/collector, successor/beneficiary, stranger, nobody, the current holder signing altered arguments, the current holder authorising the same call on a twin contract}; all histories to fixpoint (payouts / mints / rotations bounded to 3); role queries and the affected configuration compared after every new state, and again after every exported function the check does not drive by name has been called unauthorised".into();
        (C06, o)
    });
}
