//! C11: token ids are deterministic and write-once; tokens deployed through the service stay
//! mintable by the service. Histories mixing local deployments, canonical registrations and
//! remote deploy messages, colliding or not, with independent id / address derivations.

use axmc::explore::*;
use axmc::its::*;
use axmc::refs::*;
use axmc::world::*;
use serde::{Deserialize, Serialize};
use soroban_sdk::xdr::{ScAddress, ScVal};
use soroban_sdk::Address;
use std::collections::BTreeMap;

const X: &str = "ethereum";
const SALTS: [[u8; 32]; 2] = [[0x51; 32], [0x52; 32]];
const R1: [u8; 32] = [0xd1; 32];

#[derive(Clone, Copy, Debug, PartialEq, Eq, Hash, Serialize, Deserialize)]
enum MinterSel {
    None,
    Third,
    Deployer,
    Service,
    /// the all-zero account: an address like any other, not a way of saying "no minter"
    Zero,
}

#[derive(Clone, Debug, Serialize, Deserialize)]
enum Act {
    Deploy { deployer: usize, salt: usize, supply: i128, minter: MinterSel, meta: u8, auth: bool },
    RegisterCanonical(usize),
    /// id: 0 = fresh remote id, 1 = id of local (U0, salt0), 2 = canonical id of asset 0
    RemoteDeploy { id: u8, minter: u8 },
    Advance(u32),
}

#[derive(Clone, Debug, PartialEq, Eq, Hash)]
struct TokenRec {
    native: bool,
    address: ScAddress,
    name: Vec<u8>,
    symbol: Vec<u8>,
    decimals: u32,
    /// indices into the address universe that must be minters (besides the service)
    minter: Option<usize>,
    service_minter: bool,
    deployer_balance: Option<(usize, i128)>,
}

#[derive(Clone, Hash)]
struct Model {
    advances: u8,
    reg: BTreeMap<[u8; 32], TokenRec>,
}

struct Ctx {
    iw: ItsWorld,
    /// address universe: 0,1 = deployers U0 U1; 2 = third party; 3 = ITS; 4 = owner; 5 = the all-zero account
    uni: Vec<Address>,
    ids_local: Vec<Vec<[u8; 32]>>,
    ids_canon: Vec<[u8; 32]>,
    all_ids: Vec<[u8; 32]>,
}

struct C11 {
    thorough: bool,
    chains: Vec<&'static str>,
}

fn meta_of(i: u8) -> (Vec<u8>, Vec<u8>, u32, bool) {
    match i {
        0 => (b"Token".to_vec(), b"TOK".to_vec(), 7, true),
        1 => ("Жетон 🚀".as_bytes().to_vec(), b"J".to_vec(), 255, true),
        2 => (b"Token".to_vec(), b"TOK".to_vec(), 256, false),
        3 => (vec![], b"TOK".to_vec(), 7, false),
        _ => (b"Token".to_vec(), vec![], 0, false),
    }
}

impl C11 {
    fn remote_id(&self, ctx: &Ctx, id: u8) -> [u8; 32] {
        match id {
            0 => R1,
            1 => ctx.ids_local[0][0],
            _ => ctx.ids_canon[0],
        }
    }
}

impl C11 {
    /// write-once registry over the whole id universe
    fn registry(&self, ctx: &Ctx, m: &Model, out: &mut StepOut, context: &str) {
        let iw = &ctx.iw;
        let w = &iw.w;
        let env = &w.env;
        for id in &ctx.all_ids {
            let qa = w.query(&iw.its, "token_address", &[to_val(env, &sbytes(id))]);
            let qt = w.query(&iw.its, "token_manager_type", &[to_val(env, &sbytes(id))]);
            match m.reg.get(id) {
                None => {
                    out.expect(qa.is_none() && qt.is_none(), "probe.unregistered-id-resolves", || format!("{}id {}: {:?} {:?}", context, hex(&id[..4]), qa, qt));
                }
                Some(rec) => {
                    out.expect(qa == Some(ScVal::Address(rec.address.clone())), "probe.token_address", || format!("{}id {}: {:?} vs {:?}", context, hex(&id[..4]), qa, rec.address));
                    let want_t = if rec.native { 0u32 } else { 2 };
                    out.expect(qt == Some(su32(want_t)), "probe.token_manager_type", || format!("{}id {}: {:?} vs {}", context, hex(&id[..4]), qt, want_t));
                }
            }
        }
    }
}

impl Scenario for C11 {
    type Ctx = Ctx;
    type M = Model;
    type A = Act;

    fn id(&self) -> &'static str { "C11" }
    fn n_configs(&self) -> usize { self.chains.len() }
    fn config_label(&self, c: usize) -> String { format!("ITS on chain '{}', 2 deployers, 2 salts, 2 canonical assets, 1 remote id", self.chains[c]) }
    fn world<'a>(&self, ctx: &'a Ctx) -> &'a World { &ctx.iw.w }

    fn build(&self, c: usize) -> (Ctx, Model) {
        let chain = self.chains[c];
        let iw = ItsWorld::new(chain, 3, 2);
        assert!(iw.set_trusted(X).ok);
        let mut ids_local = vec![];
        let mut all_ids = vec![];
        for d in 0..2 {
            let mut v = vec![];
            for s in 0..2 {
                let id = interchain_token_id(chain, &iw.sc(&iw.users[d]), &SALTS[s]);
                v.push(id);
                all_ids.push(id);
            }
            ids_local.push(v);
        }
        let mut ids_canon: Vec<[u8; 32]> = (0..2).map(|a| canonical_token_id(chain, &iw.sc(&iw.assets[a]))).collect();
        // the third "asset" is the address of the service-deployed token (U0, salt 0): anybody may
        // register it as a canonical token as well, which must not disturb the token's own id
        ids_canon.push(canonical_token_id(chain, &iw.token_address_of(&ids_local[0][0])));
        all_ids.extend(ids_canon.iter().cloned());
        all_ids.push(R1);
        // a native seat behind every id of the universe, so that any deployment the code attempts
        // (including one a broken tree should not attempt) runs the token from the current tree
        for id in &all_ids {
            iw.seat_token(id);
        }
        let uni = vec![
            iw.users[0].clone(),
            iw.users[1].clone(),
            iw.users[2].clone(),
            iw.its.clone(),
            iw.owner.clone(),
            Address::from_string(&soroban_sdk::String::from_str(&iw.w.env, "GAAAAAAAAAAAAAAAAAAAAAAAAAAAAAAAAAAAAAAAAAAAAAAAAAAAAWHF")),
        ];
        (Ctx { iw, uni, ids_local, ids_canon, all_ids }, Model { advances: 0, reg: BTreeMap::new() })
    }

    fn actions(&self, _ctx: &Ctx, m: &Model) -> Vec<Act> {
        let mut v = vec![];
        if m.advances < 1 {
            v.push(Act::Advance(20));
            // ~405 days: longer than the maximum entry TTL, so every temporary entry is gone by then, while
            // the world's keeper (World::set_seq) keeps instance / persistent entries alive
            v.push(Act::Advance(7_000_000));
        }
        for deployer in 0..2usize {
            for salt in 0..2usize {
                if !self.thorough && deployer == 1 && salt == 1 { continue; }
                for supply in [5i128, 0, -1] {
                    for minter in [MinterSel::None, MinterSel::Third, MinterSel::Deployer, MinterSel::Service, MinterSel::Zero] {
                        if !self.thorough && deployer == 1 && minter != MinterSel::Third { continue; }
                        if minter == MinterSel::Zero && (deployer == 1 || supply < 0) { continue; }
                        v.push(Act::Deploy { deployer, salt, supply, minter, meta: 0, auth: true });
                    }
                }
            }
            for meta in 1..5u8 {
                v.push(Act::Deploy { deployer, salt: 0, supply: 5, minter: MinterSel::None, meta, auth: true });
            }
            v.push(Act::Deploy { deployer, salt: 0, supply: 0, minter: MinterSel::None, meta: 0, auth: false });
        }
        v.push(Act::RegisterCanonical(0));
        v.push(Act::RegisterCanonical(1));
        if m.reg.contains_key(&_ctx.ids_local[0][0]) {
            v.push(Act::RegisterCanonical(2));
        }
        for id in 0..3u8 {
            for minter in 0..6u8 {
                if minter >= 4 && id != 0 { continue; }
                v.push(Act::RemoteDeploy { id, minter });
            }
        }
        v
    }

    fn step(&self, ctx: &Ctx, m: &mut Model, a: &Act, out: &mut StepOut) {
        let iw = &ctx.iw;
        let w = &iw.w;
        let env = &w.env;
        let chain = iw.chain_name.as_str();
        let h0 = w.state_hash();
        match a {
            Act::Advance(n) => {
                out.kind = "advance";
                out.accepted = true;
                w.set_seq(w.seq() + n);
                w.set_time(w.now() + 5 * *n as u64);
                m.advances += 1;
            }
            Act::Deploy { deployer, salt, supply, minter, meta, auth } => {
                out.kind = "deploy";
                let d = &iw.users[*deployer];
                let (name, symbol, decimals, meta_ok) = meta_of(*meta);
                let minter_ix: Option<usize> = match minter {
                    MinterSel::None => None,
                    MinterSel::Third => Some(2),
                    MinterSel::Deployer => Some(*deployer),
                    MinterSel::Service => Some(3),
                    MinterSel::Zero => Some(5),
                };
                let minter_val = match minter_ix { None => ScVal::Void, Some(i) => w.sc_addr_val(&ctx.uni[i]) };
                let signers = if *auth { vec![d.clone()] } else { vec![iw.users[2].clone()] };
                let call = w.call(
                    &iw.its,
                    "deploy_interchain_token",
                    &[d.to_val(), to_val(env, &sbytes(&SALTS[*salt])), to_val(env, &metadata_scval(&name, &symbol, decimals)), w.v(*supply), to_val(env, &minter_val)],
                    Auth::By(&signers),
                );
                out.accepted = call.ok;
                let id = interchain_token_id(chain, &iw.sc(d), &SALTS[*salt]);
                let taken = m.reg.contains_key(&id);
                let must_fail = !*auth || taken || !meta_ok;
                // outcome is outside the statement for a negative supply and for "minter = the service"
                let unspecified = *supply < 0 || *minter == MinterSel::Service;
                if must_fail {
                    out.expect(!call.ok, "deploy.accepted-invalid", || format!("{:?} (taken {}, meta_ok {}): accepted", a, taken, meta_ok));
                } else if !unspecified {
                    out.expect(call.ok, "deploy.rejected-valid", || format!("{:?}: {}", a, call.err));
                }
                if !call.ok {
                    out.expect(h0 == w.state_hash(), "rejected-but-changed-state", || format!("{:?}", a));
                    return;
                }
                if must_fail { return; }
                out.expect(call.ret == Some(sbytes(&id)), "deploy.returned-id", || format!("returned {:?}, independent derivation {}", call.ret, hex(&id)));
                let address = iw.token_address_of(&id);
                // F2: with a positive supply and a designated minter the service gives up its own
                // minting right. The model follows the implementation there (known finding).
                let mut service_minter = true;
                if *supply > 0 && minter_ix.is_some() && minter_ix != Some(3) {
                    let tok = addr_from_sc(w, &address);
                    let q = w.query(&tok, "is_minter", &[iw.its.to_val()]);
                    if q != Some(ScVal::Bool(true)) {
                        out.fail(
                            "token.service-not-minter:supply>0+minter",
                            format!("{:?}: after deployment is_minter(service) = {:?}; every later inbound transfer to this token fails", a, q),
                        );
                        out.adopted = true;
                        service_minter = false;
                    }
                }
                m.reg.insert(id, TokenRec {
                    native: true,
                    address,
                    name,
                    symbol,
                    decimals,
                    minter: minter_ix.filter(|i| *i != 3),
                    service_minter,
                    deployer_balance: Some((*deployer, (*supply).max(0))),
                });
            }
            Act::RegisterCanonical(ai) => {
                out.kind = "register_canonical";
                let deployed = addr_from_sc(w, &iw.token_address_of(&ctx.ids_local[0][0]));
                let asset = if *ai == 2 { &deployed } else { &iw.assets[*ai] };
                let call = w.call(&iw.its, "register_canonical_token", &[asset.to_val()], Auth::Nobody);
                let id = ctx.ids_canon[*ai];
                let want = !m.reg.contains_key(&id);
                out.accepted = call.ok;
                out.expect(call.ok == want, "register.outcome", || format!("{:?}: ok={} ({}), model {}", a, call.ok, call.err, want));
                if call.ok {
                    out.expect(call.ret == Some(sbytes(&id)), "register.returned-id", || format!("returned {:?}, independent derivation {}", call.ret, hex(&id)));
                    if want {
                        m.reg.insert(id, TokenRec { native: false, address: iw.sc(asset), name: vec![], symbol: vec![], decimals: 0, minter: None, service_minter: false, deployer_balance: None });
                    }
                } else {
                    out.expect(h0 == w.state_hash(), "rejected-but-changed-state", || format!("{:?}", a));
                }
            }
            Act::RemoteDeploy { id, minter } => {
                out.kind = "remote_deploy";
                let tid = self.remote_id(ctx, *id);
                let (mbytes, m_ok, m_ix): (Vec<u8>, bool, Option<usize>) = match minter {
                    0 => (vec![], true, None),
                    1 => (addr_xdr(&iw.sc(&iw.users[2])), true, Some(2)),
                    2 => (vec![9, 9, 9], false, None),
                    // well-formed XDR, but of a string, not of an address
                    3 => (xdr(&sstr("GAAAAAAAAAAAAAAAAAAAAAAAAAAAAAAAAAAAAAAAAAAAAAAAAAAAAWHF")), false, None),
                    // 4: no minter, a name that is not UTF-8; 5: no minter, a decimals word with a dirty high byte
                    _ => (vec![], false, None),
                };
                // announced metadata: short for the minter-less request, longer than one ABI word otherwise
                let (rname, rsym): (Vec<u8>, Vec<u8>) = if *minter == 0 || *minter == 5 {
                    (b"Remote".to_vec(), b"RMT".to_vec())
                } else if *minter == 4 {
                    (b"Rem\xffte".to_vec(), b"RMT".to_vec())
                } else {
                    ("Remote token with a name longer than a word é".as_bytes().to_vec(), b"RMT-SYMBOL-LONGER-THAN-32-BYTES-XX".to_vec())
                };
                let payload = abi_hub(&RHub::ReceiveFromHub {
                    chain: X.as_bytes().to_vec(),
                    msg: RMsg::Deploy { token_id: tid, name: rname.clone(), symbol: rsym.clone(), decimals: 6, minter: mbytes },
                });
                let mut payload = payload;
                if *minter == 5 {
                    // third head word of the wrapper = offset of the inner message; its fifth word is `decimals`
                    let off = u64::from_be_bytes(payload[88..96].try_into().unwrap()) as usize;
                    let decimals_word = off + 32 + 4 * 32;
                    assert_eq!(payload[decimals_word + 31], 6);
                    payload[decimals_word + 30] = 1;
                }
                let mid = format!("rd-{}-{}", id, minter);
                let pre = w.snap();
                let ap = iw.approve_delivery(HUB_CHAIN, &mid, HUB_ADDRESS, &iw.its, &payload);
                assert!(ap.ok);
                let executed_before = iw.is_executed(HUB_CHAIN, &mid) == Some(true);
                let h1 = w.state_hash();
                let call = iw.execute(&iw.its, HUB_CHAIN, &mid, HUB_ADDRESS, &payload);
                out.accepted = call.ok;
                let want = !m.reg.contains_key(&tid) && m_ok && !executed_before;
                out.expect(call.ok == want, "remote_deploy.outcome", || {
                    format!("{:?} (id {} taken: {}): ok={} ({}), model {}", a, hex(&tid[..4]), m.reg.contains_key(&tid), call.ok, call.err, want)
                });
                if call.ok {
                    if want {
                        m.reg.insert(tid, TokenRec {
                            native: true,
                            address: iw.token_address_of(&tid),
                            name: rname,
                            symbol: rsym,
                            decimals: 6,
                            minter: m_ix,
                            service_minter: true,
                            deployer_balance: None,
                        });
                    }
                } else {
                    out.expect(h1 == w.state_hash(), "rejected-but-changed-state", || format!("{:?}", a));
                    w.restore(&pre);
                }
            }
        }
    }

    fn probe(&self, ctx: &Ctx, m: &Model, out: &mut StepOut) {
        let iw = &ctx.iw;
        let w = &iw.w;
        let env = &w.env;
        self.registry(ctx, m, out, "");
        // announcing a token to another chain registers nothing here: after an outbound remote
        // deployment (of either canonical asset, by a third party, and of U0's first token), accepted
        // or not, the registry still reads as before
        for which in 0..3usize {
            let snap = w.snap();
            let payer = if which < 2 { &iw.users[2] } else { &iw.users[0] };
            iw.mint_asset(&iw.gas_token, payer, 10);
            let gas = to_val(env, &token_scval(&iw.sc(&iw.gas_token), 1));
            let call = if which < 2 {
                w.call(&iw.its, "deploy_remote_canonical_token", &[iw.assets[which].to_val(), to_val(env, &sstr(X)), payer.to_val(), gas], Auth::By(&[payer.clone()]))
            } else {
                w.call(&iw.its, "deploy_remote_interchain_token", &[payer.to_val(), to_val(env, &sbytes(&SALTS[0])), to_val(env, &sstr(X)), gas], Auth::By(&[payer.clone()]))
            };
            self.registry(ctx, m, out, &format!("after an outbound remote deployment ({}, ok={}): ", if which < 2 { "canonical asset" } else { "U0's token" }, call.ok));
            w.restore(&snap);
        }
        // every service-deployed token
        for (id, rec) in m.reg.iter().filter(|(_, r)| r.native) {
            let tok = addr_from_sc(w, &rec.address);
            let q = w.query(&tok, "token_id", &[]);
            out.expect(q == Some(sbytes(id)), "token.token_id", || format!("{:?} vs {}", q, hex(&id[..4])));
            let q = w.query(&tok, "name", &[]);
            out.expect(q == Some(sstr_bytes(&rec.name)), "token.name", || format!("{:?}", q));
            let q = w.query(&tok, "symbol", &[]);
            out.expect(q == Some(sstr_bytes(&rec.symbol)), "token.symbol", || format!("{:?}", q));
            let q = w.query(&tok, "decimals", &[]);
            out.expect(q == Some(su32(rec.decimals)), "token.decimals", || format!("{:?} vs {}", q, rec.decimals));
            let q = w.query(&tok, "owner", &[]);
            out.expect(q == Some(w.sc_addr_val(&iw.its)), "token.owner-is-service", || format!("{:?}", q));
            if let Some((d, b)) = rec.deployer_balance {
                let q = iw.balance(&tok, &ctx.uni[d]);
                out.expect(q == Some(b), "token.initial-supply-credited", || format!("deployer balance {:?} vs {}", q, b));
            }
            let has_designated = rec.minter.is_some();
            let positive_supply = rec.deployer_balance.map(|(_, b)| b > 0).unwrap_or(false);
            for (ui, u) in ctx.uni.iter().enumerate() {
                let q = w.query(&tok, "is_minter", &[u.to_val()]);
                let want = if ui == 3 { rec.service_minter } else { rec.minter == Some(ui) };
                let sig = if ui == 3 {
                    if has_designated && positive_supply { "token.service-not-minter:supply>0+minter" } else { "token.service-not-minter" }
                } else {
                    "token.minter-set"
                };
                out.expect(q == Some(ScVal::Bool(want)), sig, || format!("token {} is_minter(universe {}) = {:?}, expected {}", hex(&id[..4]), ui, q, want));
            }
            // the service must be able to mint for an approved inbound transfer
            let snap = w.snap();
            let payload = abi_hub(&RHub::ReceiveFromHub {
                chain: X.as_bytes().to_vec(),
                msg: RMsg::Transfer { token_id: *id, source_address: b"remote-sender".to_vec(), destination_address: addr_xdr(&iw.sc(&iw.users[1])), amount: 1, data: vec![] },
            });
            let mid = format!("inbound-{}", hex(&id[..4]));
            let before = iw.balance(&tok, &iw.users[1]);
            let ap = iw.approve_delivery(HUB_CHAIN, &mid, HUB_ADDRESS, &iw.its, &payload);
            let ex = iw.execute(&iw.its, HUB_CHAIN, &mid, HUB_ADDRESS, &payload);
            let after = iw.balance(&tok, &iw.users[1]);
            w.restore(&snap);
            let sig = if has_designated && positive_supply { "token.inbound-transfer-fails:supply>0+minter" } else { "token.inbound-transfer-fails" };
            let minted = ap.ok && ex.ok && after == before.map(|b| b + 1);
            out.expect(minted == rec.service_minter, sig, || {
                format!("approved inbound transfer of 1 to token {}: execute ok={} ({}), balance {:?} -> {:?}", hex(&id[..4]), ex.ok, ex.err, before, after)
            });
        }
    }

    fn sweep_targets(&self, ctx: &Ctx) -> (Vec<(Address, &'static str, &'static [&'static str])>, Vec<Address>) {
        let iw = &ctx.iw;
        (
            vec![
                (iw.its.clone(), "/repo/contracts/interchain-token-service/src", &axmc::inventory::ITS_KNOWN[..]),
                (iw.gw.clone(), "/repo/contracts/axelar-gateway/src", &axmc::inventory::GATEWAY_KNOWN[..]),
                (iw.gas.clone(), "/repo/contracts/axelar-gas-service/src", &axmc::inventory::GAS_KNOWN[..]),
            ],
            vec![iw.users[0].clone(), iw.users[1].clone(), iw.its.clone()],
        )
    }

    fn must_succeed_kinds(&self) -> Vec<&'static str> {
        vec!["deploy", "register_canonical", "remote_deploy"]
    }
}

fn main() {
    main_for(|tier| {
        let thorough = tier == "thorough";
        let s = C11 { thorough, chains: if thorough { vec!["stellar", "stellar-testnet"] } else { vec!["stellar"] } };
        let mut o = Opts::new(tier, if thorough { 5 } else { 3 });
        o.min_depth = 2;
        o.rule = "histories over deploy_interchain_token (deployer U0/U1, 2 salts, supply 5/0/-1, minter none / third party / the deployer / the service itself / the all-zero account, 5 metadata shapes incl. decimals 255, 256, empty name, empty symbol, multi-byte; authorised by the deployer or by someone else), register_canonical_token (2 assets, repeated, and the address of an already service-deployed token), remote deploy messages (short metadata / name and symbol longer than 32 bytes / a name that is not UTF-8 / a decimals word with a dirty high byte (both refused); fresh id, id of a local token, id of a canonical registration; minter none / valid / not XDR / XDR of a string); native seats behind all 8 ids. After every new state: token_address / token_manager_type of all 8 ids vs the write-once model, read again after each of three outbound remote deployments tried on a snapshot (either canonical asset by a third party, U0's first token); for every service-deployed token token_id, name, symbol, decimals, owner, deployer balance, is_minter for 5 universe addresses, and an approved inbound transfer executed on a snapshot; ids and addresses from independent keccak/XDR/sha256 derivations".into();
        (s, o)
    });
}
