//! C10: the ITS codec is exact canonical Solidity ABI and never misdecodes.
//! Bounded-exhaustive enumeration of the message grid (encode side) and of all single / double
//! deviations of a covering set of valid encodings (decode side) against an independent
//! hand-written ABI encoder. No ledger history is involved, so this is an input-space
//! enumeration, not a state exploration (level "exploration", exhaustive over the grid).

use axmc::refs::*;
use axmc::report;
use interchain_token_service::types::{
    DeployInterchainToken, HubMessage, InterchainTransfer, Message,
};
use soroban_sdk::testutils::EnvTestConfig;
use soroban_sdk::{Bytes, BytesN, Env, String as SString};
use std::panic::{catch_unwind, AssertUnwindSafe};
use std::sync::atomic::{AtomicU64, Ordering};
use std::sync::Mutex;
use std::time::Instant;

fn new_env() -> Env {
    let env = Env::new_with_config(EnvTestConfig { capture_snapshot_at_drop: false });
    env.budget().reset_unlimited();
    env
}

fn to_sdk_msg(env: &Env, m: &RMsg) -> Message {
    let opt = |b: &Vec<u8>, force_some: bool| -> Option<Bytes> {
        if b.is_empty() && !force_some { None } else { Some(Bytes::from_slice(env, b)) }
    };
    match m {
        RMsg::Transfer { token_id, source_address, destination_address, amount, data } => {
            Message::InterchainTransfer(InterchainTransfer {
                token_id: BytesN::from_array(env, token_id),
                source_address: Bytes::from_slice(env, source_address),
                destination_address: Bytes::from_slice(env, destination_address),
                amount: *amount as i128,
                data: opt(data, false),
            })
        }
        RMsg::Deploy { token_id, name, symbol, decimals, minter } => {
            Message::DeployInterchainToken(DeployInterchainToken {
                token_id: BytesN::from_array(env, token_id),
                name: SString::from_bytes(env, name),
                symbol: SString::from_bytes(env, symbol),
                decimals: *decimals,
                minter: opt(minter, false),
            })
        }
    }
}

fn to_sdk_hub(env: &Env, h: &RHub) -> HubMessage {
    match h {
        RHub::SendToHub { chain, msg } => HubMessage::SendToHub {
            destination_chain: SString::from_bytes(env, chain),
            message: to_sdk_msg(env, msg),
        },
        RHub::ReceiveFromHub { chain, msg } => HubMessage::ReceiveFromHub {
            source_chain: SString::from_bytes(env, chain),
            message: to_sdk_msg(env, msg),
        },
    }
}

fn sstring_bytes(s: &SString) -> Vec<u8> {
    let mut v = vec![0u8; s.len() as usize];
    s.copy_into_slice(&mut v);
    v
}

fn from_sdk_msg(m: &Message) -> RMsg {
    match m {
        Message::InterchainTransfer(t) => RMsg::Transfer {
            token_id: t.token_id.to_array(),
            source_address: t.source_address.to_alloc_vec(),
            destination_address: t.destination_address.to_alloc_vec(),
            amount: t.amount as u128,
            data: t.data.as_ref().map(|d| d.to_alloc_vec()).unwrap_or_default(),
        },
        Message::DeployInterchainToken(d) => RMsg::Deploy {
            token_id: d.token_id.to_array(),
            name: sstring_bytes(&d.name),
            symbol: sstring_bytes(&d.symbol),
            decimals: d.decimals,
            minter: d.minter.as_ref().map(|d| d.to_alloc_vec()).unwrap_or_default(),
        },
    }
}

fn from_sdk_hub(h: &HubMessage) -> RHub {
    match h {
        HubMessage::SendToHub { destination_chain, message } => RHub::SendToHub { chain: sstring_bytes(destination_chain), msg: from_sdk_msg(message) },
        HubMessage::ReceiveFromHub { source_chain, message } => RHub::ReceiveFromHub { chain: sstring_bytes(source_chain), msg: from_sdk_msg(message) },
    }
}

/// Some(negative amount / Some(empty)) cannot be told from the R form; amounts are kept < 2^127
fn amount_ok(h: &RHub) -> bool {
    let m = match h { RHub::SendToHub { msg, .. } | RHub::ReceiveFromHub { msg, .. } => msg };
    match m { RMsg::Transfer { amount, .. } => *amount <= i128::MAX as u128, _ => true }
}

// ------------------------------------------------------------------ grids

fn pat(len: usize, seed: u8) -> Vec<u8> {
    (0..len).map(|i| (i as u8).wrapping_mul(37).wrapping_add(seed)).collect()
}

fn chains() -> Vec<Vec<u8>> {
    vec![
        vec![],
        b"a".to_vec(),
        vec![b'c'; 31],
        vec![b'd'; 32],
        vec![b'e'; 33],
        "chaîne-目的地-🚀".as_bytes().to_vec(),
        b" Avalanche-C ".to_vec(),
    ]
}
fn ids() -> Vec<[u8; 32]> {
    let mut p = [0u8; 32];
    for (i, b) in p.iter_mut().enumerate() { *b = (i as u8) * 7 + 1; }
    vec![[0u8; 32], [0xff; 32], p]
}

fn grid(thorough: bool) -> Vec<RHub> {
    let mut out = vec![];
    let lens = [0usize, 1, 31, 32, 33, 64, 65];
    let dlens: Vec<usize> = if thorough { lens.to_vec() } else { vec![0, 32, 33] };
    let amounts: [u128; 5] = [0, 1, 1 << 64, (1u128 << 127) - 1, 1000];
    let datas = [0usize, 1, 32, 33];
    let names: Vec<Vec<u8>> = vec![b"T".to_vec(), "é".as_bytes().to_vec(), "🚀".as_bytes().to_vec(), vec![b'n'; 31], vec![b'n'; 32], vec![b'n'; 33], b" ".to_vec(), b" Mixed Case ".to_vec(), b"PAD\0".to_vec()];
    let symbols: Vec<Vec<u8>> = vec![b"S".to_vec(), "π€".as_bytes().to_vec(), vec![b's'; 32], vec![b's'; 33]];
    for chain in chains() {
        for id in ids() {
            for sl in lens {
                for dl in &dlens {
                    for amount in amounts {
                        for data in datas {
                            let msg = RMsg::Transfer { token_id: id, source_address: pat(sl, 3), destination_address: pat(*dl, 9), amount, data: pat(data, 5) };
                            out.push(RHub::SendToHub { chain: chain.clone(), msg: msg.clone() });
                            out.push(RHub::ReceiveFromHub { chain: chain.clone(), msg });
                            // non-empty fields consisting of zero bytes only are present, not absent
                            if data > 0 && amount == 1 {
                                let z = RMsg::Transfer { token_id: id, source_address: vec![0; sl], destination_address: vec![0; *dl], amount, data: vec![0; data] };
                                out.push(RHub::ReceiveFromHub { chain: chain.clone(), msg: z });
                            }
                        }
                    }
                }
            }
            for name in &names {
                for symbol in &symbols {
                    for decimals in [0u8, 1, 18, 255] {
                        for ml in [0usize, 1, 32, 33] {
                            let msg = RMsg::Deploy { token_id: id, name: name.clone(), symbol: symbol.clone(), decimals, minter: pat(ml, 11) };
                            out.push(RHub::SendToHub { chain: chain.clone(), msg: msg.clone() });
                            out.push(RHub::ReceiveFromHub { chain: chain.clone(), msg });
                            if ml > 0 && decimals == 18 {
                                let z = RMsg::Deploy { token_id: id, name: name.clone(), symbol: symbol.clone(), decimals, minter: vec![0; ml] };
                                out.push(RHub::SendToHub { chain: chain.clone(), msg: z });
                            }
                        }
                    }
                }
            }
        }
    }
    // fields of several kilobytes (a fixed-size scratch buffer somewhere in the codec would show here)
    let id = ids()[0];
    for big in [4000usize, 4097, 5000, 70_000] {
        let t = RMsg::Transfer { token_id: id, source_address: pat(20, 3), destination_address: pat(32, 9), amount: 1000, data: pat(big, 5) };
        out.push(RHub::SendToHub { chain: b"ethereum".to_vec(), msg: t.clone() });
        out.push(RHub::ReceiveFromHub { chain: b"ethereum".to_vec(), msg: t });
        let t = RMsg::Transfer { token_id: id, source_address: pat(big, 3), destination_address: pat(big, 9), amount: 1, data: vec![] };
        out.push(RHub::ReceiveFromHub { chain: pat(big, 7).iter().map(|b| b'a' + b % 26).collect(), msg: t });
        let d = RMsg::Deploy { token_id: id, name: vec![b'n'; big], symbol: vec![b's'; big], decimals: 18, minter: pat(big, 11) };
        out.push(RHub::ReceiveFromHub { chain: b"ethereum".to_vec(), msg: d });
    }
    out
}

fn boundary_words(len: usize) -> Vec<[u8; 32]> {
    let mut v: Vec<[u8; 32]> = vec![];
    for x in [0u128, 1, 2, 3, 4, 5, 31, 33, len as u128, (len as u128).saturating_sub(32), 1 << 32, 1 << 64, (1u128 << 127) - 1, 1 << 127, u128::MAX] {
        v.push(word_u128(x));
    }
    let mut k = 0x20u128;
    while k <= len as u128 + 0x40 && v.len() < 40 {
        v.push(word_u128(k));
        k += if len > 400 { 0x40 } else { 0x20 };
    }
    let mut w = [0u8; 32]; w[15] = 1; v.push(w);          // 2^128
    let mut w = [0u8; 32]; w[0] = 0x80; v.push(w);         // 2^255
    let mut w = [0u8; 32]; w[0] = 1; w[31] = 4; v.push(w); // 2^248 + 4
    v.push([0xff; 32]);
    v
}

/// every word whose four 64-bit limbs each are 0, 1, 2^63 or 2^64-1: wide-integer checks written
/// limb by limb (or half by half) go wrong on particular combinations of limbs, not on single bits
fn limb_words() -> Vec<[u8; 32]> {
    let vals: [u64; 4] = [0, 1, 1 << 63, u64::MAX];
    let mut v = vec![];
    for code in 0..256usize {
        let mut w = [0u8; 32];
        for limb in 0..4 {
            let x = vals[(code >> (2 * limb)) & 3];
            w[limb * 8..limb * 8 + 8].copy_from_slice(&x.to_be_bytes());
        }
        v.push(w);
    }
    v
}

#[derive(Default)]
struct Stats {
    evals: AtomicU64,
    accepted: AtomicU64,
    rejected: AtomicU64,
    distinct: AtomicU64,
}

struct Fail {
    sig: String,
    detail: String,
    input: Vec<u8>,
}

/// decode-side oracle for one input
fn check_decode(env: &Env, input: &[u8], must_accept: Option<&RHub>, st: &Stats) -> Result<(), Fail> {
    st.evals.fetch_add(1, Ordering::Relaxed);
    let r = catch_unwind(AssertUnwindSafe(|| {
        let b = Bytes::from_slice(env, input);
        match HubMessage::abi_decode(env, &b) {
            Ok(m) => {
                let re = m.clone().abi_encode(env).map(|b| b.to_alloc_vec());
                Some((from_sdk_hub(&m), re.ok(), m))
            }
            Err(_) => None,
        }
    }));
    match r {
        Err(_) => {
            // one input class is a recorded finding (known_findings.txt): a length word within 2^16
            // of 2^64, on which the pinned decoder's unchecked `offset + len` overflows
            let sig = if has_length_word_near_2_64(input) { "decode.panic:length-word-near-2^64" } else { "decode.panic" };
            Err(Fail { sig: sig.into(), detail: "abi_decode (or re-encoding its result) panicked".into(), input: input.to_vec() })
        }
        Ok(None) => {
            st.rejected.fetch_add(1, Ordering::Relaxed);
            if must_accept.is_some() {
                return Err(Fail { sig: "decode.rejected-canonical".into(), detail: "a canonical encoding was rejected".into(), input: input.to_vec() });
            }
            Ok(())
        }
        Ok(Some((rh, re, _m))) => {
            st.accepted.fetch_add(1, Ordering::Relaxed);
            if re.as_deref() != Some(input) {
                return Err(Fail { sig: "decode.accepted-noncanonical".into(), detail: format!("decoded to {:?} whose re-encoding differs from the input", rh), input: input.to_vec() });
            }
            if !amount_ok(&rh) || abi_hub(&rh) != input {
                return Err(Fail { sig: "decode.accepted-noncanonical-vs-independent-encoder".into(), detail: format!("decoded to {:?}; the independent encoder gives different bytes", rh), input: input.to_vec() });
            }
            if let Some(want) = must_accept {
                if &rh != want {
                    return Err(Fail { sig: "decode.roundtrip".into(), detail: format!("decoded {:?}, expected {:?}", rh, want), input: input.to_vec() });
                }
            }
            Ok(())
        }
    }
}

/// some 32-byte aligned word fits 64 bits and lies within 2^16 of 2^64
fn has_length_word_near_2_64(input: &[u8]) -> bool {
    input.chunks_exact(32).any(|w| w[..24].iter().all(|b| *b == 0) && u64::from_be_bytes(w[24..32].try_into().unwrap()) >= u64::MAX - 0xffff)
}

fn check_encode(env: &Env, h: &RHub, st: &Stats) -> Result<(), Fail> {
    st.evals.fetch_add(1, Ordering::Relaxed);
    let want = abi_hub(h);
    let r = catch_unwind(AssertUnwindSafe(|| to_sdk_hub(env, h).abi_encode(env).map(|b| b.to_alloc_vec())));
    match r {
        Err(_) => Err(Fail { sig: "encode.panic".into(), detail: format!("abi_encode panicked on {:?}", h), input: want }),
        Ok(Err(e)) => Err(Fail { sig: "encode.rejected-representable".into(), detail: format!("{:?} on {:?}", e, h), input: want }),
        Ok(Ok(bytes)) => {
            if bytes != want {
                return Err(Fail { sig: "encode.not-standard-abi".into(), detail: format!("{:?}: got {} expected {}", h, hex(&bytes), hex(&want)), input: want });
            }
            check_decode(env, &want, Some(h), st)
        }
    }
}

/// recorded findings met during the run: signature -> (hits, first input)
static KNOWN_HITS: Mutex<Vec<(String, u64, Vec<u8>)>> = Mutex::new(Vec::new());

fn note_known(f: &Fail) {
    let mut g = KNOWN_HITS.lock().unwrap();
    match g.iter_mut().find(|(s, _, _)| *s == f.sig) {
        Some(e) => e.1 += 1,
        None => g.push((f.sig.clone(), 1, f.input.clone())),
    }
}

fn run_parallel<T: Sync>(items: &[T], threads: usize, f: impl Fn(&Env, &T) -> Result<(), Fail> + Sync, first_fail: &Mutex<Option<Fail>>) {
    let known = report::Known::load();
    let next = AtomicU64::new(0);
    let chunk = 256usize;
    std::thread::scope(|s| {
        for _ in 0..threads {
            s.spawn(|| loop {
                if first_fail.lock().unwrap().is_some() { break; }
                let start = next.fetch_add(chunk as u64, Ordering::Relaxed) as usize;
                if start >= items.len() { break; }
                // a fresh host per chunk: host objects are never freed within one Env
                let env = new_env();
                for it in &items[start..(start + chunk).min(items.len())] {
                    if let Err(fl) = f(&env, it) {
                        if known.is_known("C10", &fl.sig) {
                            note_known(&fl);
                            continue;
                        }
                        let mut g = first_fail.lock().unwrap();
                        if g.is_none() { *g = Some(fl); }
                        return;
                    }
                }
            });
        }
    });
}

fn main() {
    axmc::world::install_quiet_panic_hook();
    let args: Vec<String> = std::env::args().collect();
    let mode = args.get(1).map(|s| s.as_str()).unwrap_or("quick");
    if mode == "replay" {
        let v: serde_json::Value = serde_json::from_str(&std::fs::read_to_string(&args[2]).unwrap()).unwrap();
        let input = ::hex::decode(v["input_hex"].as_str().unwrap()).unwrap();
        let st = Stats::default();
        let env = new_env();
        match check_decode(&env, &input, None, &st) {
            Ok(()) => { println!("no mismatch on replay"); std::process::exit(0) }
            Err(f) => {
                println!("mismatch: {} :: {}", f.sig, f.detail);
                if report::Known::load().is_known("C10", &f.sig) {
                    println!("KNOWN-FINDING: property=C10 [{}]", f.sig);
                    std::process::exit(0)
                }
                println!("VIOLATION property=C10 replay={}", args[2]);
                std::process::exit(1)
            }
        }
    }
    let thorough = mode == "thorough";
    let tier = if thorough { "thorough" } else { "quick" };
    let t0 = Instant::now();
    let threads = std::env::var("AXMC_THREADS").ok().and_then(|s| s.parse().ok()).unwrap_or(16usize);
    let st = Stats::default();
    let first_fail: Mutex<Option<Fail>> = Mutex::new(None);

    // ---- encode side: full grid
    let g = grid(thorough);
    let n_grid = g.len();
    run_parallel(&g, threads, |env, h| check_encode(env, h, &st), &first_fail);
    st.distinct.fetch_add(n_grid as u64, Ordering::Relaxed);

    // ---- decode side: deviations of a covering subset of encodings
    let step = if thorough { g.len() / 2048 } else { g.len() / 128 };
    // (the few messages with multi-kilobyte fields are grid members only: mutating every bit of them
    // would dwarf everything else)
    let base_msgs: Vec<&RHub> = g.iter().step_by(step.max(1)).filter(|h| abi_hub(h).len() <= 2048).collect();
    let bases: Vec<Vec<u8>> = base_msgs.iter().map(|h| abi_hub(h)).collect();
    let mut n_mut = 0u64;
    let mut samples: Vec<serde_json::Value> = vec![];
    for (bi, base) in bases.iter().enumerate() {
        if first_fail.lock().unwrap().is_some() { break; }
        let mut muts: Vec<Vec<u8>> = vec![];
        for l in 0..base.len() { muts.push(base[..l].to_vec()); }
        for i in 0..base.len() * 8 { let mut m = base.clone(); m[i / 8] ^= 1 << (i % 8); muts.push(m); }
        let words = base.len() / 32;
        let bw = boundary_words(base.len());
        let lw = limb_words();
        for wi in 0..words {
            for b in bw.iter().chain(lw.iter()) {
                let mut m = base.clone();
                m[wi * 32..wi * 32 + 32].copy_from_slice(b);
                if m != *base { muts.push(m); }
            }
        }
        // every pair of word replacements (all bases in thorough; every 8th base in quick with a
        // reduced word alphabet)
        if thorough || bi % 4 == 0 {
            let bw2: Vec<[u8; 32]> = if thorough { bw.clone() } else { bw.iter().cloned().step_by(3).collect() };
            for w1 in 0..words {
                for w2 in (w1 + 1)..words {
                    for b1 in &bw2 {
                        for b2 in bw2.iter().step_by(if thorough { 2 } else { 3 }) {
                            let mut m = base.clone();
                            m[w1 * 32..w1 * 32 + 32].copy_from_slice(b1);
                            m[w2 * 32..w2 * 32 + 32].copy_from_slice(b2);
                            muts.push(m);
                        }
                    }
                }
            }
        }
        for (n, fill) in [(1usize, 0u8), (31, 0), (32, 0), (64, 0), (1, 0xab), (31, 0xab), (32, 0xab), (64, 0xab)] {
            let mut m = base.clone();
            m.extend(std::iter::repeat(fill).take(n));
            muts.push(m);
        }
        // a canonical wrapper around an inner message with trailing bytes (the wrapper's own
        // offsets, lengths and padding are all canonical)
        {
            let (tag, chain, msg) = match base_msgs[bi] {
                RHub::SendToHub { chain, msg } => (3u128, chain, msg),
                RHub::ReceiveFromHub { chain, msg } => (4u128, chain, msg),
            };
            for (n, fill) in [(1usize, 0u8), (32, 0), (32, 0xab), (64, 0)] {
                let mut inner = abi_msg(msg);
                inner.extend(std::iter::repeat(fill).take(n));
                muts.push(abi_params(&[Tok::Word(word_u128(tag)), Tok::Dyn(chain.clone()), Tok::Dyn(inner)]));
            }
            // ... and around an inner message cut short: every prefix up to three words (an inner
            // message shorter than its own type word included), and every word boundary after that
            let full = abi_msg(msg);
            let mut cuts: Vec<usize> = (0..=96.min(full.len())).collect();
            cuts.extend((128..full.len()).step_by(32));
            for cut in cuts {
                muts.push(abi_params(&[Tok::Word(word_u128(tag)), Tok::Dyn(chain.clone()), Tok::Dyn(full[..cut].to_vec())]));
            }
        }
        if samples.len() < 3 {
            samples.push(serde_json::json!({"base_encoding_hex": hex(base), "example_deviation_hex": hex(&muts[muts.len() / 2]), "deviations_of_this_base": muts.len()}));
        }
        n_mut += muts.len() as u64;
        run_parallel(&muts, threads, |env, m| check_decode(env, m, None, &st), &first_fail);
    }
    // ---- tiny inputs and one-hot words
    let mut small: Vec<Vec<u8>> = vec![vec![]];
    for a in 0..=255u8 { small.push(vec![a]); }
    for a in 0..=255u8 { for b in 0..=255u8 { small.push(vec![a, b]); } }
    for bit in 0..256usize { let mut w = vec![0u8; 32]; w[bit / 8] = 1 << (bit % 8); small.push(w); }
    for t in 0..=6u8 { for extra in [0usize, 32, 64, 96, 160] { let mut w = vec![0u8; 32 + extra]; w[31] = t; small.push(w); } }
    n_mut += small.len() as u64;
    run_parallel(&small, threads, |env, m| check_decode(env, m, None, &st), &first_fail);
    st.distinct.fetch_add(n_mut, Ordering::Relaxed);

    let fail = first_fail.lock().unwrap().take();
    let known = report::Known::load();
    for (sig, n, input) in KNOWN_HITS.lock().unwrap().iter() {
        println!("KNOWN-FINDING: property=C10 {} [{}] (hit {} times; e.g. input 0x{})", known.describe("C10", sig), sig, n, axmc::explore::truncate(&hex(input), 200));
    }
    let mut exit = 0;
    let mut violations = 0;
    let mut replay = String::new();
    if let Some(f) = &fail {
        // deterministic by construction (pure function of the input); confirm once more
        let env = new_env();
        let again = check_decode(&env, &f.input, None, &Stats::default());
        let confirmed = again.is_err() || f.sig.starts_with("encode") || f.sig == "decode.rejected-canonical" || f.sig == "decode.roundtrip";
        if !confirmed {
            eprintln!("MACHINERY-FAILURE C10: violation did not reproduce: {} {}", f.sig, f.detail);
            exit = 2;
        } else {
            let dir = report::verif_root().join("replays");
            let _ = std::fs::create_dir_all(&dir);
            let name = format!("C10-{}.json", &hex(&keccak(&f.input))[..8]);
            let p = dir.join(name);
            std::fs::write(&p, serde_json::to_string_pretty(&serde_json::json!({
                "property": "C10", "tier": tier, "signature": f.sig, "detail": f.detail, "input_hex": hex(&f.input),
            })).unwrap()).unwrap();
            replay = p.to_string_lossy().to_string();
            println!("violation: {} :: {}", f.sig, axmc::explore::truncate(&f.detail, 1200));
            println!("VIOLATION property=C10 replay={}", replay);
            violations = 1;
            exit = 1;
        }
    }
    if exit == 0 && st.accepted.load(Ordering::Relaxed) < n_grid as u64 {
        eprintln!("MACHINERY-FAILURE C10: vacuous run (fewer accepted decodes than grid messages)");
        exit = 2;
    }
    samples.push(serde_json::json!({"grid_message": format!("{:?}", g[g.len() / 3]), "its_encoding_hex": hex(&abi_hub(&g[g.len() / 3]))}));
    let cov = serde_json::json!({
        "evaluations": st.evals.load(Ordering::Relaxed),
        "distinct_nontrivial": st.distinct.load(Ordering::Relaxed),
        "rule": "encode side: the full product grid of hub messages (both wrappers x both inner kinds; chain names of 0/1/31/32/33 bytes, multi-byte, mixed case with surrounding blanks; ids 00.., ff.., pattern; address/data/minter lengths 0,1,31,32,33,64,65 and, for a few messages, 4000 / 4097 / 5000 / 70000 in every variable-length field; amounts 0,1,1000,2^64,2^127-1; names/symbols of 1 byte, 2- and 4-byte UTF-8 scalars, 31/32/33 bytes, a single blank, mixed case with surrounding blanks, a trailing NUL; decimals 0,1,18,255): abi_encode must equal the independent head/tail encoder byte for byte and decode back to the same message. Decode side: for a covering subset of 128 (quick) / 2048 (thorough) encodings every truncation, every single-bit flip, every 32-byte word replaced by each of ~30 boundary words and by each of the 256 words whose four 64-bit limbs are 0 / 1 / 2^63 / 2^64-1, pairs of word replacements, 8 kinds of trailing bytes, 4 kinds of trailing bytes on the inner message inside a canonical wrapper, and the inner message cut at every length up to 96 bytes and at every later word boundary inside a canonical wrapper; all byte strings of length <= 2; all one-hot words; short type-tag-only inputs. Oracle: no panic, and Ok(m) implies both re-encoding m and the independent encoding of m reproduce the input exactly. A case is distinct when its byte string (or message) differs; all are non-trivial (each is a decode or encode compared with the reference)",
        "samples": samples,
        "exhaustive": fail.is_none(),
        "grid_messages": n_grid,
        "decode_inputs": n_mut,
        "decode_accepted": st.accepted.load(Ordering::Relaxed),
        "decode_rejected": st.rejected.load(Ordering::Relaxed),
        "mutation_bases": bases.len(),
        "known_findings_hit": KNOWN_HITS.lock().unwrap().iter().map(|(s, n, _)| serde_json::json!({"signature": s, "hits": n})).collect::<Vec<_>>(),
        "replay": replay,
    });
    report::write_evidence("C10", tier, std::env::var("VERIF_SEED").ok().and_then(|s| s.parse().ok()).unwrap_or(0), "exploration", cov,
        &["alloy-sol-types is treated as part of the subject; the reference is the hand-written encoder in /verif/mc/src/refs.rs".to_string()],
        t0.elapsed().as_secs_f64(), violations);
    println!("C10 {}: grid={} decode_inputs={} accepted={} rejected={} wall={:.1}s", tier, n_grid, n_mut, st.accepted.load(Ordering::Relaxed), st.rejected.load(Ordering::Relaxed), t0.elapsed().as_secs_f64());
    std::process::exit(exit);
}
