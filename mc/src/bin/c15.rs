//! C15: owner-only upgrades, one migration per upgrade, all-or-nothing Upgrader.
//! One configuration per upgradable contract (five production contracts, natively
//! dispatched before and after `upgrade(sha256(""))`, plus a derive-based dummy target whose
//! code is really swapped to the repository's dummy.wasm by the Upgrader's success path).

use axmc::aux::{DummyTarget, Principal};
use axmc::explore::*;
use axmc::gw::*;
use axmc::its::metadata_scval;
use axmc::refs::*;
use axmc::world::*;
use serde::{Deserialize, Serialize};
use soroban_sdk::xdr::ScVal;
use soroban_sdk::{Address, Val};

const DUMMY_WASM: &[u8] = include_bytes!("/repo/contracts/upgrader/tests/testdata/dummy.wasm");

// principals: 0 = initial owner, 1 = other owner, 2 = stranger
struct Ctx {
    w: World,
    target: Address,
    upgrader: Address,
    p: Vec<Address>,
    version: String,
    dummy_hash: [u8; 32],
    is_dummy: bool,
    /// the interchain token: its asset-contract style set_admin is a second way to hand the ownership over
    is_token: bool,
}

#[derive(Clone, Hash)]
struct Model {
    advances: u8,
    /// the dummy target's code was really replaced by dummy.wasm (version 0.2.0)
    swapped: bool,
    owner: usize,
    window: bool,
    /// ledger-state hash observed with the window closed, per owner: upgrade + migrate must
    /// bring the contract back to exactly that state (owner, version, data unchanged)
    closed_hash: [Option<u128>; 2],
}

#[derive(Clone, Copy, Debug, PartialEq, Eq, Serialize, Deserialize)]
enum Who {
    Owner,
    Other,
    Stranger,
    Nobody,
}

#[derive(Clone, Copy, Debug, PartialEq, Eq, Serialize, Deserialize)]
enum Cover {
    Both,
    UpgradeOnly,
    MigrateOnly,
    Nobody,
    WrongPrincipal,
}

#[derive(Clone, Debug, Serialize, Deserialize)]
enum Act {
    Upgrade { known_hash: bool, by: Who },
    Migrate { well_typed: bool, by: Who },
    TransferOwnership { to: usize, by: Who },
    /// the token's set_admin(new_admin): only the current owner may hand the ownership over
    SetAdmin { to: usize, by: Who },
    /// version: 0 = same as current, 1 = the version the new code reports, 2.. = wrong ones
    /// (9.9.9, 0.1.5, 0.10.0, 0.2, the empty string);
    /// data: 0 = well-typed, 1 = ill-typed, 2 = empty argument list
    Upgrader { version: u8, cover: Cover, data: u8, real_code: bool },
    Advance(u32),
}

struct C15;

const NAMES: [&str; 6] = ["gateway", "gas-service", "operators", "its", "token", "dummy-target"];

impl C15 {
    fn who(&self, ctx: &Ctx, m: &Model, w: Who) -> Vec<Address> {
        match w {
            Who::Owner => vec![ctx.p[m.owner].clone()],
            Who::Other => vec![ctx.p[1 - m.owner].clone()],
            Who::Stranger => vec![ctx.p[2].clone()],
            Who::Nobody => vec![],
        }
    }
    fn version_of(&self, ctx: &Ctx) -> Option<ScVal> {
        ctx.w.query(&ctx.target, "version", &[])
    }
}

impl Scenario for C15 {
    type Ctx = Ctx;
    type M = Model;
    type A = Act;

    fn id(&self) -> &'static str { "C15" }
    fn n_configs(&self) -> usize { 6 }
    fn config_label(&self, c: usize) -> String { NAMES[c].into() }
    fn world<'a>(&self, ctx: &'a Ctx) -> &'a World { &ctx.w }

    fn build(&self, c: usize) -> (Ctx, Model) {
        let w = World::new();
        let env = &w.env;
        let p: Vec<Address> = (0..3).map(|_| env.register(Principal, ())).collect();
        let misc = env.register(Principal, ());
        let owner = p[0].clone();
        let keys = Keys::new(1);
        let set = SetSpec { signers: vec![(0, 1)], threshold: 1, nonce: 1 };
        let target = match c {
            0 => register_gateway(&w, None, &owner, &misc, &DOMAIN, 0, 1, &[set.raw(&keys)]),
            1 => env.register(axelar_gas_service::AxelarGasService, (owner.clone(), misc.clone())),
            2 => env.register(axelar_operators::AxelarOperators, (owner.clone(),)),
            3 => env.register(
                interchain_token_service::InterchainTokenService,
                (owner.clone(), misc.clone(), misc.clone(), to_val(env, &sstr("hub")), to_val(env, &sstr("stellar")), to_val(env, &sbytes(&sha256(b"")))),
            ),
            4 => env.register(
                interchain_token::InterchainToken,
                (owner.clone(), Option::<Address>::None, to_val(env, &sbytes(&[1u8; 32])), to_val(env, &metadata_scval(b"T", b"T", 1))),
            ),
            _ => env.register(DummyTarget, (owner.clone(),)),
        };
        // give every target real data, so that "upgrade + migrate changes nothing but the window"
        // (checked by comparing canonical ledger hashes) is a statement about non-trivial state
        let setup = |c: &Address, f: &str, args: &[Val]| {
            let r = w.call(c, f, args, Auth::Setup);
            assert!(r.ok, "setup {} failed: {}", f, r.err);
        };
        match c {
            0 => {
                let m1 = msg_scval(&Msg { chain: "c".into(), id: "1".into(), src: "s".into(), dest: 0, payload_hash: [1; 32] }, &w.sc_addr(&p[2]));
                let m2 = msg_scval(&Msg { chain: "c".into(), id: "2".into(), src: "s".into(), dest: 0, payload_hash: [2; 32] }, &w.sc_addr(&p[2]));
                assert!(approve(&w, &target, &keys, &set, &DOMAIN, &[m1, m2]).ok);
                setup(&target, "validate_message", &[p[2].to_val(), to_val(env, &sstr("c")), to_val(env, &sstr("1")), to_val(env, &sstr("s")), to_val(env, &sbytes(&[1; 32]))]);
                let next = SetSpec { signers: vec![(0, 2)], threshold: 2, nonce: 2 };
                let proof = honest_proof(&keys, &set, &DOMAIN, &next.raw(&keys).rotation_data_hash());
                setup(&target, "rotate_signers", &[to_val(env, &next.raw(&keys).scval()), to_val(env, &proof), w.v(false)]);
            }
            2 => setup(&target, "add_operator", &[p[2].to_val()]),
            3 => {
                setup(&target, "set_trusted_chain", &[to_val(env, &sstr("ethereum"))]);
                let asset = env.register_stellar_asset_contract_v2(misc.clone()).address();
                setup(&target, "register_canonical_token", &[asset.to_val()]);
            }
            4 => {
                setup(&target, "mint", &[p[2].to_val(), w.v(50i128)]);
                setup(&target, "add_minter", &[p[2].to_val()]);
                setup(&target, "approve", &[p[2].to_val(), p[1].to_val(), w.v(7i128), w.v(w.seq() + 500)]);
            }
            _ => {}
        }
        let upgrader = env.register(upgrader::Upgrader, ());
        let dummy_hash_bn = env.deployer().upload_contract_wasm(DUMMY_WASM);
        let dummy_hash = dummy_hash_bn.to_array();
        let version = match w.query(&target, "version", &[]) {
            Some(ScVal::String(s)) => s.to_utf8_string_lossy(),
            other => panic!("version() failed: {:?}", other),
        };
        (
            Ctx { w, target, upgrader, p, version, dummy_hash, is_dummy: c == 5, is_token: c == 4 },
            Model { advances: 0, swapped: false, owner: 0, window: false, closed_hash: [None, None] },
        )
    }

    fn actions(&self, ctx: &Ctx, m: &Model) -> Vec<Act> {
        let mut v = vec![];
        if m.swapped {
            // the target now runs the prebuilt artefact: only the Upgrader's own contract is
            // asserted from here on (driving the same upgrade again must fail and change nothing)
            for version in 0..3u8 {
                for cover in [Cover::Both, Cover::UpgradeOnly, Cover::Nobody] {
                    v.push(Act::Upgrader { version, cover, data: 0, real_code: true });
                }
            }
            return v;
        }
        if m.advances < 1 {
            v.push(Act::Advance(20));
            // ~405 days: longer than the maximum entry TTL, so every temporary entry is gone by then, while
            // the world's keeper (World::set_seq) keeps instance / persistent entries alive
            v.push(Act::Advance(7_000_000));
        }
        for by in [Who::Owner, Who::Other, Who::Stranger, Who::Nobody] {
            v.push(Act::Upgrade { known_hash: true, by });
            v.push(Act::Migrate { well_typed: true, by });
        }
        v.push(Act::Upgrade { known_hash: false, by: Who::Owner });
        v.push(Act::Migrate { well_typed: false, by: Who::Owner });
        for (to, by) in [(1usize, Who::Owner), (0, Who::Owner), (1, Who::Other), (2, Who::Stranger), (1, Who::Nobody)] {
            v.push(Act::TransferOwnership { to, by });
            if ctx.is_token {
                v.push(Act::SetAdmin { to, by });
            }
        }
        for version in 0..7u8 {
            for cover in [Cover::Both, Cover::UpgradeOnly, Cover::MigrateOnly, Cover::Nobody, Cover::WrongPrincipal] {
                if version >= 3 && cover != Cover::Both {
                    continue;
                }
                for data in 0..4u8 {
                    if version >= 3 && data != 0 {
                        continue;
                    }
                    v.push(Act::Upgrader { version, cover, data, real_code: false });
                    if ctx.is_dummy {
                        v.push(Act::Upgrader { version, cover, data, real_code: true });
                    }
                }
            }
        }
        v
    }

    fn step(&self, ctx: &Ctx, m: &mut Model, a: &Act, out: &mut StepOut) {
        let w = &ctx.w;
        let env = &w.env;
        let h0 = w.state_hash();
        let v0 = self.version_of(ctx);
        match a {
            Act::Advance(n) => {
                out.kind = "advance";
                out.accepted = true;
                w.set_seq(w.seq() + n);
                w.set_time(w.now() + 5 * *n as u64);
                m.advances += 1;
                // the cycle hash includes the ledger sequence: forget it across time
                m.closed_hash = [None, None];
            }
            Act::Upgrade { known_hash, by } => {
                out.kind = "upgrade";
                let hash = if *known_hash { sha256(b"") } else { [9u8; 32] };
                let call = w.call(&ctx.target, "upgrade", &[to_val(env, &sbytes(&hash))], Auth::By(&self.who(ctx, m, *by)));
                let want = *by == Who::Owner && *known_hash;
                out.accepted = call.ok;
                out.expect(call.ok == want, "upgrade.outcome", || format!("{:?}: ok={} ({}), model {}", a, call.ok, call.err, want));
                if call.ok {
                    // the announcement belongs to the migration: the code swap itself announces nothing
                    let r = match_events(&call.events, &[], &["upgraded"]);
                    out.expect(r.is_ok(), "upgrade.event", || format!("upgrade() itself announced an upgrade: {}", r.unwrap_err()));
                    if !m.window {
                        m.closed_hash[m.owner] = Some(h0);
                    }
                    m.window = true;
                } else {
                    out.expect(h0 == w.state_hash(), "rejected-but-changed-state", || format!("{:?}", a));
                }
            }
            Act::Migrate { well_typed, by } => {
                out.kind = "migrate";
                let data: Val = if *well_typed { Val::VOID.to_val() } else { w.v(5u32) };
                let call = w.call(&ctx.target, "migrate", &[data], Auth::By(&self.who(ctx, m, *by)));
                let want = *by == Who::Owner && m.window && *well_typed;
                out.accepted = call.ok;
                out.expect(call.ok == want, "migrate.outcome", || {
                    format!("{:?} with window {}: ok={} ({}), model {}", a, if m.window { "open" } else { "closed" }, call.ok, call.err, want)
                });
                if call.ok {
                    m.window = false;
                    let r = match_events(
                        &call.events,
                        &[EvPat { contract: w.sc_addr(&ctx.target), name: "upgraded", must: vec![sstr(&ctx.version)] }],
                        &["upgraded"],
                    );
                    out.expect(r.is_ok(), "migrate.event", || r.unwrap_err());
                    // upgrade + migrate changed nothing but the (now closed) window: owner, version,
                    // configuration and data are bit-identical to the state before the upgrade
                    if let Some(h) = m.closed_hash[m.owner] {
                        out.expect(w.state_hash() == h, "migrate.cycle-changed-data", || {
                            "the ledger state after upgrade+migrate differs from the state before the upgrade".into()
                        });
                    }
                } else {
                    out.expect(h0 == w.state_hash(), "rejected-but-changed-state", || format!("{:?}", a));
                }
            }
            Act::TransferOwnership { to, by } => {
                out.kind = "transfer_ownership";
                if *to == 2 && *by == Who::Stranger || *to < 2 {
                    let call = w.call(&ctx.target, "transfer_ownership", &[ctx.p[*to].to_val()], Auth::By(&self.who(ctx, m, *by)));
                    let want = *by == Who::Owner;
                    out.accepted = call.ok;
                    out.expect(call.ok == want, "ownership.outcome", || format!("{:?}: ok={} ({}), model {}", a, call.ok, call.err, want));
                    if call.ok && *to < 2 {
                        if *to != m.owner {
                            m.closed_hash = [None, None];
                        }
                        m.owner = *to;
                    }
                    if !call.ok {
                        out.expect(h0 == w.state_hash(), "rejected-but-changed-state", || format!("{:?}", a));
                    }
                }
            }
            Act::SetAdmin { to, by } => {
                out.kind = "transfer_ownership";
                // `Other` and `Stranger` sign as the would-be new admin themselves
                let call = w.call(&ctx.target, "set_admin", &[ctx.p[*to].to_val()], Auth::By(&self.who(ctx, m, *by)));
                let want = *by == Who::Owner;
                out.accepted = call.ok;
                out.expect(call.ok == want, "ownership.outcome", || format!("{:?}: ok={} ({}), model {}", a, call.ok, call.err, want));
                if call.ok && *to < 2 {
                    if *to != m.owner {
                        m.closed_hash = [None, None];
                    }
                    m.owner = *to;
                }
                if !call.ok {
                    out.expect(h0 == w.state_hash(), "rejected-but-changed-state", || format!("{:?}", a));
                }
            }
            Act::Upgrader { version, cover, data, real_code } => {
                out.kind = "upgrader";
                let current = if m.swapped { "0.2.0".to_string() } else { ctx.version.clone() };
                let new_reports = if *real_code { "0.2.0".to_string() } else { ctx.version.clone() };
                let requested = match version {
                    0 => current.clone(),
                    1 => new_reports.clone(),
                    2 => "9.9.9".to_string(),
                    3 => "0.1.5".to_string(),
                    4 => "0.10.0".to_string(),
                    5 => "0.2".to_string(),
                    _ => String::new(),
                };
                let hash = if *real_code { ctx.dummy_hash } else { sha256(b"") };
                // migration data: the real dummy.wasm expects a string, native contracts expect ()
                let good: Val = if *real_code { to_val(env, &sstr("migrated")) } else { Val::VOID.to_val() };
                let argv: Vec<Val> = match data {
                    0 => vec![good],
                    1 => vec![w.v(5u32), w.v(6u32)],
                    2 => vec![],
                    // a single unit value: well-typed for the native contracts, ill-typed for dummy.wasm
                    _ => vec![Val::VOID.to_val()],
                };
                let args: soroban_sdk::Vec<Val> = soroban_sdk::Vec::from_slice(env, &argv);
                let call_args = [ctx.target.to_val(), to_val(env, &sstr(&requested)), to_val(env, &sbytes(&hash)), args.to_val()];
                let owner = [ctx.p[m.owner].clone()];
                let stranger = [ctx.p[2].clone()];
                let auth = match cover {
                    Cover::Both => Auth::By(&owner),
                    Cover::UpgradeOnly => Auth::Only(&owner, "upgrade"),
                    Cover::MigrateOnly => Auth::Only(&owner, "migrate"),
                    Cover::Nobody => Auth::Nobody,
                    Cover::WrongPrincipal => Auth::By(&stranger),
                };
                let call = w.call(&ctx.upgrader, "upgrade", &call_args, auth);
                out.accepted = call.ok;
                // complete success needs: requested version differs from the old one and equals what
                // the new code reports, both steps authorised by the owner, well-typed data
                let data_ok = *data == 0 || (*data == 3 && !*real_code);
                let want = requested != current && requested == new_reports && *cover == Cover::Both && data_ok;
                out.expect(call.ok == want, "upgrader.outcome", || {
                    format!("{:?} (requested {}, old {}, new code reports {}): ok={} ({}), model {}", a, requested, current, new_reports, call.ok, call.err, want)
                });
                if call.ok {
                    let v1 = self.version_of(ctx);
                    out.expect(v1 == Some(sstr(&requested)) && Some(sstr(&requested)) != v0, "upgrader.ended-at-wrong-version", || {
                        format!("requested {}, before {:?}, after {:?}", requested, v0, v1)
                    });
                    // after a real code swap the target is the prebuilt artefact
                    if *real_code {
                        m.swapped = true;
                        m.window = false;
                        m.closed_hash = [None, None];
                    } else {
                        out.prune = true;
                    }
                } else {
                    out.expect(h0 == w.state_hash(), "upgrader.failed-but-target-changed", || {
                        format!("{:?}: the target's code, version or data differ after a failed Upgrader call", a)
                    });
                    let v1 = self.version_of(ctx);
                    out.expect(v1 == v0, "upgrader.failed-but-version-changed", || format!("{:?} -> {:?}", v0, v1));
                }
            }
        }
    }

    fn probe(&self, ctx: &Ctx, m: &Model, out: &mut StepOut) {
        let w = &ctx.w;
        let q = w.query(&ctx.target, "owner", &[]);
        out.expect(q == Some(w.sc_addr_val(&ctx.p[m.owner])), "probe.owner", || format!("{:?} vs {}", q, m.owner));
        let v = self.version_of(ctx);
        if m.swapped {
            out.expect(v == Some(sstr("0.2.0")), "probe.version", || format!("{:?} vs 0.2.0", v));
            return;
        }
        out.expect(v == Some(sstr(&ctx.version)), "probe.version", || format!("{:?} vs {}", v, ctx.version));
        // the migration window, observed by its effect: an owner-authorised migrate tried on a
        // snapshot succeeds iff the model says the window is open
        let snap = w.snap();
        let owner = [ctx.p[m.owner].clone()];
        let c = w.call(&ctx.target, "migrate", &[Val::VOID.to_val()], Auth::By(&owner));
        w.restore(&snap);
        out.expect(c.ok == m.window, "probe.migration-window", || format!("owner migrate ok={} ({}), model window open={}", c.ok, c.err, m.window));
    }

    fn must_succeed_kinds(&self) -> Vec<&'static str> {
        vec!["upgrade", "migrate", "transfer_ownership", "upgrader"]
    }
}

fn main() {
    main_for(|tier| {
        let mut o = Opts::new(tier, if tier == "thorough" { 10 } else { 6 });
        o.min_depth = 3;
        o.xcheck = tier == "thorough";
        o.rule = "per upgradable contract (gateway, gas service, operators, ITS, interchain token: native dispatch kept across upgrade(sha256(\"\")); plus a derive-based dummy target): all sequences over upgrade(existing / unknown hash) and migrate(well-typed / ill-typed) by {owner, other owner, stranger, nobody}, ownership transfers both ways, and Upgrader.upgrade with requested version {same, the one the new code reports, wrong} x authorisation coverage {both steps, upgrade only, migrate only, nobody, wrong principal} x migration data {well-typed, ill-typed, empty argument list}, on the dummy target also with the repository's real dummy.wasm (version changes 0.1.0 -> 0.2.0); explored to fixpoint; in every state owner(), version() and the migration window (owner-migrate on a snapshot) are compared with the model".into();
        (C15, o)
    });
}
