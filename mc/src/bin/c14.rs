//! C14: the gas service holds exactly what was paid in minus what its collector paid out.

use axmc::aux::{FussyToken, Principal};
use axmc::explore::*;
use axmc::its::{metadata_scval, token_scval};
use axmc::refs::*;
use axmc::world::*;
use serde::{Deserialize, Serialize};
use soroban_sdk::Address;

struct Ctx {
    w: World,
    gas: Address,
    tokens: Vec<Address>,
    /// 0,1 = spenders U1 U2; 2 = receiver V; 3 = collector; 4 = owner; 5 = stranger
    who: Vec<Address>,
    owner0: usize,
}

#[derive(Clone, Hash)]
struct Model {
    advances: u8,
    owner_moved: bool,
    /// per token: balances of U1, U2, V, the service, the collector, the stranger
    bal: [[i128; 6]; 3],
    /// per token: payments + top-ups - collected - refunded, with payouts to the service itself
    /// counted on both sides (kept as one net figure: the individual sums can exceed 128 bits)
    net: [i128; 3],
}

#[derive(Clone, Copy, Debug, PartialEq, Eq, Serialize, Deserialize)]
enum Amt {
    Neg,
    Zero,
    One,
    All,
    AllPlus1,
}

#[derive(Clone, Debug, Serialize, Deserialize)]
enum Act {
    Pay { token: usize, spender: usize, amt: Amt, auth: bool },
    Add { token: usize, spender: usize, amt: Amt, auth: bool },
    /// receiver: 0 = V, 1 = the gas collector itself, 2 = an address the third token refuses, 3 = the gas service itself
    Collect { token: usize, amt: Amt, by: usize, receiver: u8 },
    Refund { token: usize, amt: Amt, by: usize, receiver: u8 },
    /// a refund of 1 by the collector for the empty message id
    RefundEmptyId { token: usize },
    /// everything held is paid out on the strength of the collector's authorisation for a payout
    /// of 1 (same entry point, same receiver, another amount): refused
    PayoutOnOtherAmountsAuth { token: usize, collect: bool },
    /// the current owner hands the ownership to the stranger (the collector role must not follow)
    TransferOwnershipToStranger,
    Advance(u32),
}

struct C14 {
    thorough: bool,
}

fn amt_of(a: Amt, base: i128) -> i128 {
    match a {
        Amt::Neg => -1,
        Amt::Zero => 0,
        Amt::One => 1,
        Amt::All => base,
        Amt::AllPlus1 => base.saturating_add(1),
    }
}
const AMTS: [Amt; 5] = [Amt::One, Amt::All, Amt::AllPlus1, Amt::Zero, Amt::Neg];

impl Scenario for C14 {
    type Ctx = Ctx;
    type M = Model;
    type A = Act;

    fn id(&self) -> &'static str { "C14" }
    fn n_configs(&self) -> usize { 3 }
    fn config_label(&self, c: usize) -> String {
        if c == 2 {
            return "gas service (owner and collector distinct) already holding i128::MAX - 5 of the stellar asset and of the native interchain token; U2 holds 7 of each".into();
        }
        format!("gas service ({}); tokens: stellar asset contract, native interchain token, a token refusing one recipient; U1 holds 3, U2 holds 2 of each", if c == 0 { "owner and collector distinct" } else { "owner = collector at deployment" })
    }
    fn world<'a>(&self, ctx: &'a Ctx) -> &'a World { &ctx.w }

    fn build(&self, c: usize) -> (Ctx, Model) {
        let w = World::new();
        let env = &w.env;
        let who: Vec<Address> = (0..6).map(|_| env.register(Principal, ())).collect();
        let admin = env.register(Principal, ());
        // who[3] is the collector; in configuration 1 it is also the owner
        let owner0 = if c == 1 { who[3].clone() } else { who[4].clone() };
        let gas = env.register(axelar_gas_service::AxelarGasService, (owner0, who[3].clone()));
        let asset = env.register_stellar_asset_contract_v2(admin.clone()).address();
        let native = env.register(
            interchain_token::InterchainToken,
            (admin.clone(), Option::<Address>::None, to_val(env, &sbytes(&[3u8; 32])), to_val(env, &metadata_scval(b"Gas", b"GAS", 7))),
        );
        let fussy = env.register(FussyToken, (who[5].clone(),));
        let big = i128::MAX - 5;
        for (ti, t) in [&asset, &native, &fussy].into_iter().enumerate() {
            let near_max = c == 2 && ti < 2;
            for (i, n) in if near_max { [(0usize, big), (1, 7)] } else { [(0usize, 3i128), (1, 2)] } {
                let c = w.call(t, "mint", &[who[i].to_val(), w.v(n)], Auth::Setup);
                assert!(c.ok, "{}", c.err);
            }
            if near_max {
                // U1 pays everything in: the service's custody sits 5 below the largest amount
                let tok = token_scval(&w.sc_addr(t), big);
                let c = w.call(
                    &gas,
                    "pay_gas",
                    &[who[5].to_val(), to_val(env, &sstr("dest-chain")), to_val(env, &sstr("dest-addr")), to_val(env, &sbytes(b"p")), who[0].to_val(), to_val(env, &tok), to_val(env, &sbytes(b"meta"))],
                    Auth::Setup,
                );
                assert!(c.ok, "{}", c.err);
            }
        }
        let small = [3, 2, 0, 0, 0, 0];
        let large = [0, 7, 0, big, 0, 0];
        let (bal, net) = if c == 2 { ([large, large, small], [big, big, 0]) } else { ([small; 3], [0; 3]) };
        (
            Ctx { w, gas, tokens: vec![asset, native, fussy], who, owner0: if c == 1 { 3 } else { 4 } },
            Model { advances: 0, owner_moved: false, bal, net },
        )
    }

    fn actions(&self, _ctx: &Ctx, m: &Model) -> Vec<Act> {
        let mut v = vec![];
        if m.advances < 1 {
            v.push(Act::Advance(20));
            // ~405 days: longer than the maximum entry TTL, so every temporary entry is gone by then, while
            // the world's keeper (World::set_seq) keeps instance / persistent entries alive
            v.push(Act::Advance(7_000_000));
        }
        if !m.owner_moved {
            v.push(Act::TransferOwnershipToStranger);
        }
        // third token: refuses transfers to one address; a payout to it must fail as a whole
        v.push(Act::Pay { token: 2, spender: 0, amt: Amt::One, auth: true });
        // that token does not look at the sign of an amount: the service's own rule must stop these
        for amt in [Amt::Neg, Amt::Zero] {
            v.push(Act::Pay { token: 2, spender: 0, amt, auth: true });
            v.push(Act::Add { token: 2, spender: 0, amt, auth: true });
        }
        for receiver in [0u8, 2] {
            v.push(Act::Collect { token: 2, amt: Amt::One, by: 3, receiver });
            v.push(Act::Refund { token: 2, amt: Amt::One, by: 3, receiver });
        }
        for token in 0..2 {
            for spender in 0..2 {
                for amt in AMTS {
                    v.push(Act::Pay { token, spender, amt, auth: true });
                    if spender == 0 || self.thorough {
                        v.push(Act::Add { token, spender, amt, auth: true });
                    }
                }
            }
            v.push(Act::Pay { token, spender: 0, amt: Amt::One, auth: false });
            v.push(Act::Add { token, spender: 0, amt: Amt::One, auth: false });
            // one more than the named spender U2 holds, signed for by U2 and by the sender U1 (who holds enough)
            v.push(Act::Pay { token, spender: 1, amt: Amt::AllPlus1, auth: false });
            v.push(Act::Add { token, spender: 1, amt: Amt::AllPlus1, auth: false });
            // the gas service named as its own payer (holder index 3): nobody can sign for it
            v.push(Act::Pay { token, spender: 3, amt: Amt::One, auth: false });
            v.push(Act::Add { token, spender: 3, amt: Amt::One, auth: false });
            for amt in AMTS {
                v.push(Act::Collect { token, amt, by: 3, receiver: 0 });
                v.push(Act::Refund { token, amt, by: 3, receiver: 0 });
            }
            v.push(Act::RefundEmptyId { token });
            v.push(Act::PayoutOnOtherAmountsAuth { token, collect: true });
            v.push(Act::PayoutOnOtherAmountsAuth { token, collect: false });
            // paying out to the service itself must leave every balance where it was
            for amt in [Amt::One, Amt::All] {
                v.push(Act::Collect { token, amt, by: 3, receiver: 3 });
                v.push(Act::Refund { token, amt, by: 3, receiver: 3 });
            }
            for by in [4usize, 5] {
                for amt in if self.thorough { vec![Amt::One, Amt::All, Amt::Zero, Amt::Neg] } else { vec![Amt::One, Amt::Zero, Amt::Neg] } {
                    v.push(Act::Collect { token, amt, by, receiver: 0 });
                    v.push(Act::Refund { token, amt, by, receiver: 0 });
                    // paying out *to the collector* still needs the collector's own authorisation
                    v.push(Act::Collect { token, amt, by, receiver: 1 });
                    v.push(Act::Refund { token, amt, by, receiver: 1 });
                }
            }
        }
        v
    }

    fn step(&self, ctx: &Ctx, m: &mut Model, a: &Act, out: &mut StepOut) {
        let w = &ctx.w;
        let env = &w.env;
        let gasc = w.sc_addr(&ctx.gas);
        let h0 = w.state_hash();
        let payload = b"payload-bytes".to_vec();
        match a {
            Act::TransferOwnershipToStranger => {
                out.kind = "transfer_ownership";
                let o = [ctx.who[ctx.owner0].clone()];
                let call = w.call(&ctx.gas, "transfer_ownership", &[ctx.who[5].to_val()], Auth::By(&o));
                out.accepted = call.ok;
                out.expect(call.ok, "ownership.transfer-failed", || call.err.clone());
                if call.ok {
                    m.owner_moved = true;
                }
            }
            Act::Advance(n) => {
                out.kind = "advance";
                out.accepted = true;
                w.set_seq(w.seq() + n);
                w.set_time(w.now() + 5 * *n as u64);
                m.advances += 1;
            }
            Act::Pay { token, spender, amt, auth } | Act::Add { token, spender, amt, auth } => {
                let pay = matches!(a, Act::Pay { .. });
                out.kind = if pay { "pay_gas" } else { "add_gas" };
                let x = amt_of(*amt, m.bal[*token][*spender]);
                let tok = token_scval(&w.sc_addr(&ctx.tokens[*token]), x);
                let sp = if *spender == 3 { ctx.gas.clone() } else { ctx.who[*spender].clone() };
                // the sender named is the stranger, except where U2 is to pay on somebody else's word:
                // there it is U1, who holds funds of its own
                let sender = if *spender == 1 && !*auth { ctx.who[0].clone() } else { ctx.who[5].clone() };
                // (there both U2 and the sender sign: what is asked for is more than U2 holds)
                let signers = if *auth { vec![sp.clone()] } else if *spender == 1 { vec![sp.clone(), sender.clone()] } else { vec![sender.clone()] };
                let call = if pay {
                    w.call(
                        &ctx.gas,
                        "pay_gas",
                        &[sender.to_val(), to_val(env, &sstr("dest-chain")), to_val(env, &sstr("dest-addr")), to_val(env, &sbytes(&payload)), sp.to_val(), to_val(env, &tok), to_val(env, &sbytes(b"meta"))],
                        Auth::By(&signers),
                    )
                } else {
                    w.call(
                        &ctx.gas,
                        "add_gas",
                        &[sender.to_val(), to_val(env, &sstr("msg-7")), sp.to_val(), to_val(env, &tok)],
                        Auth::By(&signers),
                    )
                };
                let want = *auth && x > 0 && m.bal[*token][*spender] >= x && m.bal[*token][3].checked_add(x).is_some();
                out.accepted = call.ok;
                out.expect(call.ok == want, "payment.outcome", || format!("{:?} (amount {}): ok={} ({}), model {}; balances {:?}", a, x, call.ok, call.err, want, m.bal));
                if call.ok {
                    if want {
                        m.bal[*token][*spender] -= x;
                        m.bal[*token][3] += x;
                        m.net[*token] += x;
                    }
                    let must = if pay {
                        vec![w.sc_addr_val(&sender), sstr("dest-chain"), sstr("dest-addr"), sbytes(&keccak(&payload)), w.sc_addr_val(&sp), tok.clone()]
                    } else {
                        vec![w.sc_addr_val(&sender), sstr("msg-7"), w.sc_addr_val(&sp), tok.clone()]
                    };
                    let r = match_events(
                        &call.events,
                        &[EvPat { contract: gasc.clone(), name: if pay { "gas_paid" } else { "gas_added" }, must }],
                        &["gas_paid", "gas_added", "gas_collected", "gas_refunded"],
                    );
                    out.expect(r.is_ok(), "payment.event", || truncate(&r.unwrap_err(), 500));
                } else {
                    out.expect(h0 == w.state_hash(), "rejected-but-changed-state", || format!("{:?}", a));
                }
            }
            Act::PayoutOnOtherAmountsAuth { token, collect } => {
                out.kind = "payout-unauthorised";
                let held = m.bal[*token][3];
                let recv = ctx.who[2].clone();
                let mk = |x: i128| -> Vec<soroban_sdk::Val> {
                    let tok = token_scval(&w.sc_addr(&ctx.tokens[*token]), x);
                    if *collect { vec![recv.to_val(), to_val(env, &tok)] } else { vec![to_val(env, &sstr("msg-7")), recv.to_val(), to_val(env, &tok)] }
                };
                let f = if *collect { "collect_fees" } else { "refund" };
                let signers = [ctx.who[3].clone()];
                // the amount asked for is everything held (at least 2, so that it differs from the 1 signed for)
                let x = held.max(2);
                let call = w.call(&ctx.gas, f, &mk(x), Auth::ForOtherCall(&signers, &ctx.gas, f, &mk(1)));
                out.accepted = call.ok;
                out.expect(!call.ok, "payout.outcome", || format!("{:?}: {} of {} accepted on the collector's authorisation for 1", a, f, x));
                if !call.ok {
                    out.expect(h0 == w.state_hash(), "rejected-but-changed-state", || format!("{:?}", a));
                }
            }
            Act::RefundEmptyId { token } => {
                out.kind = "refund";
                let held = m.bal[*token][3];
                let tok = token_scval(&w.sc_addr(&ctx.tokens[*token]), 1);
                let recv = ctx.who[2].clone();
                let call = w.call(&ctx.gas, "refund", &[to_val(env, &sstr("")), recv.to_val(), to_val(env, &tok)], Auth::By(&[ctx.who[3].clone()]));
                out.accepted = call.ok;
                let want = held >= 1 && m.bal[*token][2].checked_add(1).is_some();
                out.expect(call.ok == want, "payout.outcome", || format!("{:?} (held {}): ok={} ({}), model {}", a, held, call.ok, call.err, want));
                if call.ok {
                    if want {
                        m.bal[*token][3] -= 1;
                        m.bal[*token][2] += 1;
                        m.net[*token] -= 1;
                    }
                    let r = match_events(
                        &call.events,
                        &[EvPat { contract: gasc.clone(), name: "gas_refunded", must: vec![sstr(""), w.sc_addr_val(&recv), tok.clone()] }],
                        &["gas_paid", "gas_added", "gas_collected", "gas_refunded"],
                    );
                    out.expect(r.is_ok(), "payout.event", || truncate(&r.unwrap_err(), 500));
                } else {
                    out.expect(h0 == w.state_hash(), "rejected-but-changed-state", || format!("{:?}", a));
                }
            }
            Act::Collect { token, amt, by, receiver } | Act::Refund { token, amt, by, receiver } => {
                let collect = matches!(a, Act::Collect { .. });
                out.kind = if collect { "collect_fees" } else { "refund" };
                let held = m.bal[*token][3];
                let x = amt_of(*amt, held);
                let tok = token_scval(&w.sc_addr(&ctx.tokens[*token]), x);
                let recv = match receiver { 0 => ctx.who[2].clone(), 1 => ctx.who[3].clone(), 3 => ctx.gas.clone(), _ => ctx.who[5].clone() };
                let rix = match receiver { 0 => 2usize, 1 => 4, 3 => 3, _ => 5 };
                let signers = [ctx.who[*by].clone()];
                let call = if collect {
                    w.call(&ctx.gas, "collect_fees", &[recv.to_val(), to_val(env, &tok)], Auth::By(&signers))
                } else {
                    w.call(&ctx.gas, "refund", &[to_val(env, &sstr("msg-7")), recv.to_val(), to_val(env, &tok)], Auth::By(&signers))
                };
                out.accepted = call.ok;
                // the receiver's own balance must be able to take the amount
                let fits = rix == 3 || m.bal[*token][rix].checked_add(x).is_some();
                let want = *by == 3 && x > 0 && x <= held && *receiver != 2 && fits;
                // a refund of 0 by the collector is outside the statement; it must still move nothing
                let unspecified = !collect && *by == 3 && x == 0;
                if !unspecified {
                    out.expect(call.ok == want, "payout.outcome", || format!("{:?} (amount {}, held {}): ok={} ({}), model {}", a, x, held, call.ok, call.err, want));
                }
                if call.ok {
                    if want {
                        m.bal[*token][3] -= x;
                        m.bal[*token][rix] += x;
                        if rix != 3 {
                            m.net[*token] -= x;
                        }
                    }
                    if !unspecified {
                        let must = if collect { vec![tok.clone()] } else { vec![sstr("msg-7"), w.sc_addr_val(&recv), tok.clone()] };
                        let r = match_events(
                            &call.events,
                            &[EvPat { contract: gasc.clone(), name: if collect { "gas_collected" } else { "gas_refunded" }, must }],
                            &["gas_paid", "gas_added", "gas_collected", "gas_refunded"],
                        );
                        out.expect(r.is_ok(), "payout.event", || truncate(&r.unwrap_err(), 500));
                    }
                } else {
                    out.expect(h0 == w.state_hash(), "rejected-but-changed-state", || format!("{:?}", a));
                }
            }
        }
    }

    fn probe(&self, ctx: &Ctx, m: &Model, out: &mut StepOut) {
        let w = &ctx.w;
        for t in 0..3 {
            let holders = [&ctx.who[0], &ctx.who[1], &ctx.who[2], &ctx.gas, &ctx.who[3], &ctx.who[5]];
            for (i, h) in holders.iter().enumerate() {
                let q = w.query(&ctx.tokens[t], "balance", &[h.to_val()]).and_then(|v| i128_of(&v));
                out.expect(q == Some(m.bal[t][i]), "probe.balance", || format!("token {} holder {}: {:?} vs {}", t, i, q, m.bal[t][i]));
            }
            let eq = m.net[t];
            out.expect(m.bal[t][3] == eq && eq >= 0, "probe.equation", || format!("token {}: held {} vs paid+added-collected-refunded {}", t, m.bal[t][3], eq));
        }
        // only the gas collector moves funds out: who that is, is what gas_collector() reports
        self.payout_authority(ctx, m, out, "");
        // entry points the check does not drive by name: with nobody's authorisation they change
        // nothing; with everybody's they may, but gas_collector() must still name the one payer-out
        let targets: [(&Address, &str, &[&str]); 1] = [(&ctx.gas, "/repo/contracts/axelar-gas-service/src", &axmc::inventory::GAS_KNOWN)];
        let addresses = [ctx.who[5].clone(), ctx.who[2].clone(), ctx.gas.clone()];
        let everybody: Vec<Address> = ctx.who.clone();
        for (contract, func, args) in axmc::inventory::unknown_calls(w, "C14", &targets, &addresses, 32) {
            let snap = w.snap();
            let h0 = w.state_hash();
            let call = w.call(&contract, &func, &args, Auth::Nobody);
            out.expect(!call.ok || h0 == w.state_hash(), "unknown-entry-point.changed-state-unauthorised", || format!("`{}` (not among the known entry points), called with nobody's authorisation, changed the state", func));
            w.restore(&snap);
            let snap = w.snap();
            let call = w.call(&contract, &func, &args, Auth::By(&everybody));
            if call.ok {
                self.payout_authority(ctx, m, out, &format!("after `{}` (not among the known entry points) was called with every principal's authorisation: ", func));
            }
            w.restore(&snap);
        }
    }

    fn must_succeed_kinds(&self) -> Vec<&'static str> {
        vec!["pay_gas", "add_gas", "collect_fees", "refund"]
    }
}

impl C14 {
    fn payout_authority(&self, ctx: &Ctx, m: &Model, out: &mut StepOut, context: &str) {
        let w = &ctx.w;
        let env = &w.env;
        let Some(t) = (0..2).find(|t| m.bal[*t][3] >= 1 && m.bal[*t][2].checked_add(1).is_some()) else { return };
        let collector = w.query(&ctx.gas, "gas_collector", &[]);
        let tok = to_val(env, &token_scval(&w.sc_addr(&ctx.tokens[t]), 1));
        for (i, who) in ctx.who.iter().enumerate() {
            for collect in [true, false] {
                let snap = w.snap();
                let c = if collect {
                    w.call(&ctx.gas, "collect_fees", &[ctx.who[2].to_val(), tok], Auth::By(&[who.clone()]))
                } else {
                    w.call(&ctx.gas, "refund", &[to_val(env, &sstr("msg-7")), ctx.who[2].to_val(), tok], Auth::By(&[who.clone()]))
                };
                w.restore(&snap);
                let named = collector == Some(w.sc_addr_val(who));
                out.expect(c.ok == named, "payout.authority-not-the-reported-collector", || {
                    format!("{}gas_collector() reports {:?}; {} of 1 authorised by principal {} -> ok={} ({})", context, collector, if collect { "collect_fees" } else { "refund" }, i, c.ok, c.err)
                });
            }
        }
    }
}

fn main() {
    main_for(|tier| {
        let thorough = tier == "thorough";
        let mut o = Opts::new(tier, if thorough { 10 } else { 4 });
        o.min_depth = 3;
        o.rule = "three configurations (owner and collector distinct / the same address at deployment / the service already holding i128::MAX - 5 of two tokens); all sequences over ownership transfer to the stranger, pay_gas / add_gas (2 tokens: stellar asset contract and native interchain token; spenders U1, U2; amounts -1, 0, 1, balance, balance+1; authorised by the spender or by the sender (and, for one more than the spender holds, by both, the sender holding enough); also naming the gas service itself as payer) and collect_fees / refund (also for the empty message id; amounts -1, 0, 1, held, held+1; by collector, owner, stranger (who may have become the owner), and on the collector's authorisation for another amount; to a receiver, to the collector itself, to the gas service itself, and to an address that a third token refuses; that third token ignores the sign of amounts, and negative / zero payments in it must be refused by the service itself); after every new state all balances of both tokens and the equation held == paid + added - collected - refunded are compared with the model, collect_fees / refund of 1 are tried on the authorisation of each of the six principals (accepted iff gas_collector() names that principal), and every exported function of the gas service that the check does not drive by name is called with nobody's authorisation (nothing may change) and with everybody's (after which gas_collector() must still name the only principal that can pay out)".into();
        (C14 { thorough }, o)
    });
}
