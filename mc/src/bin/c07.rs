//! C07: no spending, burning, sending or consuming for an address without its authorisation.
//! Every such entry point x every choice of who authorises, in every state of a bounded
//! history of (successful) operations.

use axmc::aux::{Caller, NoopToken, Probe};
use axmc::explore::*;
use axmc::its::*;
use axmc::refs::*;
use axmc::world::*;
use serde::{Deserialize, Serialize};
use soroban_sdk::xdr::ScVal;
use soroban_sdk::{Address, Symbol, Val};

const X: &str = "ethereum";
const SALTS: [[u8; 32]; 4] = [[0x51; 32], [0x61; 32], [0x62; 32], [0x63; 32]];

#[derive(Clone, Copy, Debug, PartialEq, Eq, Hash, Serialize, Deserialize)]
enum Ep {
    TokenApprove,
    TokenTransfer,
    TokenTransferFrom,
    TokenBurn,
    TokenBurnFrom,
    /// delegated operations against a holder who never granted an allowance
    TokenTransferFromNoAllowance,
    TokenBurnFromNoAllowance,
    TokenMintFrom,
    /// the minter "mints" a negative amount to a holder who authorised nothing: always refused
    TokenMintFromNegative,
    /// the token's owner, naming itself as spender and authorising, spends / burns from a holder who
    /// granted it no allowance: always refused
    TokenOwnerTransferFrom,
    TokenOwnerBurnFrom,
    /// the holder B sets A's allowance to zero (B is the named address here); afterwards A's
    /// delegated operations against B must be refused
    TokenRevoke,
    /// the holder B re-approves A for the amount that is left, but only for 5 more ledgers
    TokenShorten,
    /// the holder re-approves exactly one delegated operation's worth (2) with a near expiration
    TokenShortenExact,
    /// the holder revokes with the customary (amount 0, expiration 0) form
    TokenRevokePast,
    /// not an entry point: 20 ledgers pass (once)
    AdvanceLedgers,
    GasPay,
    GasAdd,
    GwCallContract,
    GwValidateMessage,
    /// a stranger, authorising as itself, asks the gateway to validate the message approved for the
    /// named address: refused (returns false) without consuming that approval
    GwValidateForeign,
    ItsDeploy,
    ItsDeployRemote,
    ItsDeployRemoteCanonical,
    ItsTransfer,
    ItsTransferCanonical,
    OperatorsExecute,
    ExampleSend,
}
const EPS: [Ep; 28] = [
    Ep::TokenApprove, Ep::TokenTransfer, Ep::TokenTransferFrom, Ep::TokenBurn, Ep::TokenBurnFrom, Ep::TokenTransferFromNoAllowance, Ep::TokenBurnFromNoAllowance, Ep::TokenMintFrom, Ep::TokenMintFromNegative, Ep::TokenOwnerTransferFrom, Ep::TokenOwnerBurnFrom, Ep::TokenRevoke, Ep::TokenShorten, Ep::TokenShortenExact, Ep::TokenRevokePast, Ep::AdvanceLedgers,
    Ep::GasPay, Ep::GasAdd, Ep::GwCallContract, Ep::GwValidateMessage, Ep::GwValidateForeign, Ep::ItsDeploy, Ep::ItsDeployRemote,
    Ep::ItsDeployRemoteCanonical, Ep::ItsTransfer, Ep::ItsTransferCanonical, Ep::OperatorsExecute, Ep::ExampleSend,
];

#[derive(Clone, Copy, Debug, PartialEq, Eq, Hash, Serialize, Deserialize)]
enum Var {
    /// the named address authorises
    Named,
    Counterparty,
    Owner,
    Stranger,
    Nobody,
    /// the named address authorised a call with an altered last argument
    NamedAltered,
    /// the named address authorised the root call only, not the nested debit / payment
    NamedRootOnly,
    /// the named address authorised the same function with other arguments
    NamedOtherCall,
    /// the named address is a contract and makes the call itself
    AsCallingContract,
    /// a contract makes the call naming someone else
    ContractNamingOther,
    /// the call names the called contract itself; nobody authorises
    NamesTargetItself,
    /// all amounts (and the gas payment) are zero and nobody authorises
    NobodyZeroAmount,
}
const VARS: [Var; 12] = [
    Var::Named, Var::Counterparty, Var::Owner, Var::Stranger, Var::Nobody, Var::NamedAltered, Var::NamedRootOnly,
    Var::NamedOtherCall, Var::AsCallingContract, Var::ContractNamingOther, Var::NamesTargetItself, Var::NobodyZeroAmount,
];

#[derive(Clone, Debug, Serialize, Deserialize)]
struct Act {
    ep: Ep,
    var: Var,
}

#[derive(Clone, Hash)]
struct Model {
    /// how many of the prepared deploy salts are used, per deployer (A, K)
    salts_used: [u8; 2],
    /// messages approved for A / K already consumed
    consumed: [bool; 2],
    successes: u8,
    /// B revoked A's allowance
    revoked: bool,
    /// what is left of B's allowances to A and to K (3 each at the start), and until which
    /// ledger B's allowance to A is valid
    allow_left: [i128; 2],
    allow_exp: u32,
    seq: u32,
    advanced: bool,
}

struct Ctx {
    iw: ItsWorld,
    tok: Address,
    ops: Address,
    probe: Address,
    example: Address,
    a: Address,
    b: Address,
    s: Address,
    k: Address,
    t1_id: [u8; 32],
    t1k_id: [u8; 32],
    t2_id: [u8; 32],
    noop: Address,
}

struct C07 {
    max_successes: u8,
}

/// who plays the named address
#[derive(Clone, Copy, PartialEq)]
enum Named {
    A,
    K,
    Target,
}

impl C07 {
    fn nested(&self, ep: Ep) -> bool {
        matches!(ep, Ep::GasPay | Ep::GasAdd | Ep::ItsDeployRemote | Ep::ItsDeployRemoteCanonical | Ep::ItsTransfer | Ep::ItsTransferCanonical | Ep::ExampleSend)
    }

    /// (target contract, function, arguments); `alt` varies the arguments (for "other call")
    fn spec(&self, ctx: &Ctx, m: &Model, ep: Ep, named: Named, alt: bool, marker: bool, zero: bool) -> (Address, &'static str, Vec<Val>) {
        let iw = &ctx.iw;
        let w = &iw.w;
        let env = &w.env;
        let target_of = |ep: Ep| -> Address {
            match ep {
                Ep::TokenApprove | Ep::TokenTransfer | Ep::TokenTransferFrom | Ep::TokenBurn | Ep::TokenBurnFrom | Ep::TokenTransferFromNoAllowance | Ep::TokenBurnFromNoAllowance | Ep::TokenMintFrom | Ep::TokenMintFromNegative | Ep::TokenOwnerTransferFrom | Ep::TokenOwnerBurnFrom | Ep::TokenRevoke | Ep::TokenShorten | Ep::TokenShortenExact | Ep::TokenRevokePast | Ep::AdvanceLedgers => ctx.tok.clone(),
                Ep::GasPay | Ep::GasAdd => iw.gas.clone(),
                Ep::GwCallContract | Ep::GwValidateMessage | Ep::GwValidateForeign => iw.gw.clone(),
                Ep::OperatorsExecute => ctx.ops.clone(),
                Ep::ExampleSend => ctx.example.clone(),
                _ => iw.its.clone(),
            }
        };
        let target = target_of(ep);
        let n: Val = if marker {
            Symbol::new(env, "__self__").to_val()
        } else {
            match named { Named::A => ctx.a.to_val(), Named::K => ctx.k.to_val(), Named::Target => target.to_val() }
        };
        let who_ix = if named == Named::K { 1 } else { 0 };
        let one = if named == Named::Target || zero { 0i128 } else { 1 };
        let delegated = matches!(ep, Ep::TokenTransferFrom | Ep::TokenBurnFrom);
        let amt = w.v(if delegated && one > 0 { if alt { 3i128 } else { 2 } } else if alt { one + 1 } else { one });
        let gas = |x: i128| to_val(env, &token_scval(&iw.sc(&iw.gas_token), if zero { 0 } else { x }));
        let gas1 = gas(if alt { 2 } else { 1 });
        let sv = |s: &str| to_val(env, &sstr(s));
        let (f, args): (&'static str, Vec<Val>) = match ep {
            Ep::TokenApprove => ("approve", vec![n, ctx.b.to_val(), amt, w.v(w.seq() + 500)]),
            Ep::TokenTransfer => ("transfer", vec![n, ctx.b.to_val(), amt]),
            Ep::TokenTransferFrom => ("transfer_from", vec![n, ctx.b.to_val(), ctx.s.to_val(), amt]),
            Ep::TokenBurn => ("burn", vec![n, amt]),
            Ep::TokenBurnFrom => ("burn_from", vec![n, ctx.b.to_val(), amt]),
            Ep::TokenTransferFromNoAllowance => ("transfer_from", vec![n, ctx.s.to_val(), ctx.b.to_val(), amt]),
            Ep::TokenBurnFromNoAllowance => ("burn_from", vec![n, ctx.s.to_val(), amt]),
            Ep::TokenMintFrom => ("mint_from", vec![n, ctx.s.to_val(), amt]),
            Ep::TokenOwnerTransferFrom => ("transfer_from", vec![iw.owner.to_val(), ctx.s.to_val(), ctx.b.to_val(), w.v(1i128)]),
            Ep::TokenOwnerBurnFrom => ("burn_from", vec![iw.owner.to_val(), ctx.s.to_val(), w.v(1i128)]),
            Ep::TokenMintFromNegative => ("mint_from", vec![n, ctx.s.to_val(), w.v(if zero { 0i128 } else { -1 })]),
            // revocation: holder B approves A for zero (the named, authorising address is B)
            Ep::TokenRevoke => ("approve", vec![ctx.b.to_val(), ctx.a.to_val(), w.v(0i128), w.v(w.seq() + 500)]),
            Ep::TokenShorten => ("approve", vec![ctx.b.to_val(), ctx.a.to_val(), w.v(m.allow_left[0]), w.v(w.seq() + 5)]),
            Ep::TokenShortenExact => ("approve", vec![ctx.b.to_val(), ctx.a.to_val(), w.v(2i128), w.v(w.seq() + 5)]),
            Ep::TokenRevokePast => ("approve", vec![ctx.b.to_val(), ctx.a.to_val(), w.v(0i128), w.v(0u32)]),
            Ep::AdvanceLedgers => ("balance", vec![ctx.a.to_val()]),
            Ep::GasPay => ("pay_gas", vec![ctx.s.to_val(), sv("chain"), sv("addr"), to_val(env, &sbytes(b"pl")), n, gas(if named == Named::Target { 1 } else if alt { 2 } else { 1 }), to_val(env, &sbytes(b""))]),
            Ep::GasAdd => ("add_gas", vec![ctx.s.to_val(), sv("msg"), n, gas(if named == Named::Target { 1 } else if alt { 2 } else { 1 })]),
            Ep::GwCallContract => ("call_contract", vec![n, sv("chain"), sv("addr"), to_val(env, &sbytes(if alt { b"other" } else { b"payld" }))]),
            Ep::GwValidateMessage => {
                let id = match named { Named::A => "for-a", Named::K => "for-k", Named::Target => "for-gw" };
                ("validate_message", vec![n, sv("src"), sv(id), sv(if alt { "other-sender" } else { "sender" }), to_val(env, &sbytes(&[7u8; 32]))])
            }
            Ep::GwValidateForeign => ("validate_message", vec![ctx.s.to_val(), sv("src"), sv("for-a"), sv("sender"), to_val(env, &sbytes(&[7u8; 32]))]),
            Ep::ItsDeploy => {
                let salt = SALTS[1 + (m.salts_used[who_ix] as usize).min(2)];
                ("deploy_interchain_token", vec![n, to_val(env, &sbytes(&salt)), to_val(env, &metadata_scval(if alt { b"Other" } else { b"Token" }, b"TOK", 7)), w.v(0i128), ctx.b.to_val()])
            }
            Ep::ItsDeployRemote => ("deploy_remote_interchain_token", vec![n, to_val(env, &sbytes(&SALTS[0])), sv(X), gas1]),
            Ep::ItsDeployRemoteCanonical => ("deploy_remote_canonical_token", vec![iw.assets[0].to_val(), sv(X), n, gas1]),
            Ep::ItsTransfer | Ep::ItsTransferCanonical => {
                let tid = if ep == Ep::ItsTransferCanonical { ctx.t2_id } else if named == Named::K { ctx.t1k_id } else { ctx.t1_id };
                // when the service itself is named (nobody authorising), the gas token is an
                // attacker-supplied contract whose transfer does nothing, and the service's custody is at stake
                let g = if named == Named::Target { to_val(env, &token_scval(&iw.sc(&ctx.noop), 1)) } else { gas(1) };
                let amt = if named == Named::Target { w.v(1i128) } else { amt };
                ("interchain_transfer", vec![n, to_val(env, &sbytes(&tid)), sv(X), to_val(env, &sbytes(b"0xdest")), amt, to_val(env, &ScVal::Void), g])
            }
            Ep::OperatorsExecute => {
                let args: soroban_sdk::Vec<Val> = soroban_sdk::Vec::from_slice(env, &[w.v(2i128), w.v(3i128)]);
                ("execute", vec![n, ctx.probe.to_val(), Symbol::new(env, if alt { "sub" } else { "add" }).to_val(), args.to_val()])
            }
            Ep::ExampleSend => ("send", vec![n, sv("chain"), sv("addr"), to_val(env, &sbytes(if alt { b"other" } else { b"hello" })), gas(1)]),
        };
        (target, f, args)
    }
}

impl Scenario for C07 {
    type Ctx = Ctx;
    type M = Model;
    type A = Act;

    fn id(&self) -> &'static str { "C07" }
    fn n_configs(&self) -> usize { 1 }
    fn config_label(&self, _: usize) -> String {
        "all contracts; named address A (and a contract K) with balances, mutual allowances, allowances toward every contract of the system, minter and operator roles, approved messages, deployed tokens, trusted chain".into()
    }
    fn world<'a>(&self, ctx: &'a Ctx) -> &'a World { &ctx.iw.w }

    fn build(&self, _c: usize) -> (Ctx, Model) {
        let iw = ItsWorld::new("stellar", 3, 1);
        let w = &iw.w;
        let env = &w.env;
        let a = iw.users[0].clone();
        let b = iw.users[1].clone();
        let s = iw.users[2].clone();
        let k = env.register(Caller, ());
        let o = iw.owner.clone();
        let tok = env.register(
            interchain_token::InterchainToken,
            (o.clone(), Option::<Address>::None, to_val(env, &sbytes(&[7u8; 32])), to_val(env, &metadata_scval(b"Tok", b"TOK", 7))),
        );
        let ops = env.register(axelar_operators::AxelarOperators, (o.clone(),));
        let probe = env.register(Probe, ());
        let example = env.register(example::Example, (iw.gw.clone(), iw.gas.clone()));
        let setup = |c: &Address, f: &str, args: &[Val]| {
            let r = w.call(c, f, args, Auth::Setup);
            assert!(r.ok, "setup {} failed: {}", f, r.err);
        };
        for who in [&a, &b, &k, &s] {
            setup(&tok, "mint", &[who.to_val(), w.v(1000i128)]);
            setup(&tok, "add_minter", &[who.to_val()]);
            setup(&ops, "add_operator", &[who.to_val()]);
            iw.mint_asset(&iw.gas_token, who, 1000);
            iw.mint_asset(&iw.assets[0], who, 1000);
        }
        iw.mint_asset(&iw.gas_token, &iw.gas, 10);
        setup(&tok, "mint", &[tok.to_val(), w.v(10i128)]);
        // mutual allowances with B
        let far = w.seq() + 1000;
        for who in [&a, &k] {
            // B lets A (and K) spend exactly 3: delegated operations move 2, so the second one exceeds what is left
            setup(&tok, "approve", &[b.to_val(), who.to_val(), w.v(3i128), w.v(far)]);
            setup(&tok, "approve", &[who.to_val(), b.to_val(), w.v(500i128), w.v(far)]);
        }
        // allowances that exist for other purposes: A and K have approved every contract of the
        // system on every token; no entry point may use them in place of an authorisation
        for who in [&a, &k] {
            for spender in [&iw.gas, &iw.its, &iw.gw, &ops, &example] {
                setup(&tok, "approve", &[who.to_val(), spender.to_val(), w.v(700i128), w.v(far)]);
                setup(&iw.gas_token, "approve", &[who.to_val(), spender.to_val(), w.v(700i128), w.v(far)]);
                setup(&iw.assets[0], "approve", &[who.to_val(), spender.to_val(), w.v(700i128), w.v(far)]);
            }
        }
        assert!(iw.set_trusted(X).ok);
        // tokens deployed by A and by K with SALTS[0]; seats for every salt either may use
        let mut ids = vec![];
        for d in [&a, &k] {
            for salt in SALTS.iter() {
                let id = interchain_token_id("stellar", &iw.sc(d), salt);
                iw.seat_token(&id);
            }
            let id = interchain_token_id("stellar", &iw.sc(d), &SALTS[0]);
            setup(
                &iw.its,
                "deploy_interchain_token",
                &[d.to_val(), to_val(env, &sbytes(&SALTS[0])), to_val(env, &metadata_scval(b"One", b"ONE", 7)), w.v(1000i128), to_val(env, &ScVal::Void)],
            );
            ids.push(id);
        }
        setup(&iw.its, "register_canonical_token", &[iw.assets[0].to_val()]);
        let t2_id = canonical_token_id("stellar", &iw.sc(&iw.assets[0]));
        // messages approved for A, K and the gateway itself
        for (id, dest) in [("for-a", &a), ("for-k", &k), ("for-gw", &iw.gw)] {
            let m = axmc::gw::msg_scval(
                &axmc::gw::Msg { chain: "src".into(), id: id.into(), src: "sender".into(), dest: 0, payload_hash: [7; 32] },
                &iw.sc(dest),
            );
            assert!(axmc::gw::approve(w, &iw.gw, &iw.keys, &iw.set, &axmc::gw::DOMAIN, &[m]).ok);
        }
        let seq0 = w.seq();
        let (t1_id, t1k_id) = (ids[0], ids[1]);
        // custody held by the service, and an attacker-supplied no-op gas token
        iw.mint_asset(&iw.assets[0], &iw.its, 50);
        let noop = env.register(NoopToken, ());
        (
            Ctx { iw, tok, ops, probe, example, a, b, s, k, t1_id, t1k_id, t2_id, noop },
            Model { salts_used: [0, 0], consumed: [false, false], successes: 0, revoked: false, allow_left: [3, 3], allow_exp: far, seq: seq0, advanced: false },
        )
    }

    fn actions(&self, _ctx: &Ctx, m: &Model) -> Vec<Act> {
        let mut v = vec![];
        for ep in EPS {
            for var in VARS {
                // successful operations are bounded so that preconditions (balances, salts) hold
                if m.successes >= self.max_successes && matches!(var, Var::Named | Var::AsCallingContract | Var::NamedRootOnly) {
                    continue;
                }
                // only three fresh salts per deployer are seated: a fourth deployment would collide
                if ep == Ep::ItsDeploy {
                    let ix = if var == Var::AsCallingContract { 1 } else { 0 };
                    if m.salts_used[ix] >= 3 && matches!(var, Var::Named | Var::NamedRootOnly | Var::AsCallingContract) {
                        continue;
                    }
                }
                if ep == Ep::GwValidateForeign && var != Var::Stranger {
                    continue;
                }
                if matches!(ep, Ep::TokenOwnerTransferFrom | Ep::TokenOwnerBurnFrom) && var != Var::Owner {
                    continue;
                }
                if matches!(ep, Ep::TokenRevoke | Ep::TokenShorten | Ep::TokenShortenExact | Ep::TokenRevokePast) && !matches!(var, Var::Counterparty | Var::Named | Var::Stranger | Var::Nobody) {
                    continue;
                }
                if ep == Ep::AdvanceLedgers && (var != Var::Named || m.advanced) {
                    continue;
                }
                // a calling contract would have to pre-authorise the nested debits itself
                // (authorize_as_current_contract); the harness caller does not, so the contract-caller
                // mode is exercised on the entry points without nested debits only
                if var == Var::AsCallingContract && self.nested(ep) {
                    continue;
                }
                if var == Var::NamesTargetItself && matches!(ep, Ep::ItsDeploy | Ep::ItsDeployRemote | Ep::ItsDeployRemoteCanonical | Ep::ItsTransfer | Ep::ExampleSend | Ep::TokenTransferFrom | Ep::TokenBurnFrom | Ep::TokenTransferFromNoAllowance | Ep::TokenBurnFromNoAllowance | Ep::TokenMintFrom | Ep::TokenMintFromNegative | Ep::TokenApprove) {
                    continue;
                }
                v.push(Act { ep, var });
            }
        }
        v
    }

    fn step(&self, ctx: &Ctx, m: &mut Model, a: &Act, out: &mut StepOut) {
        let iw = &ctx.iw;
        let w = &iw.w;
        let env = &w.env;
        let h0 = w.state_hash();
        let ep = a.ep;
        if ep == Ep::AdvanceLedgers {
            out.kind = "advance";
            out.accepted = true;
            w.set_seq(w.seq() + 20);
            w.set_time(w.now() + 100);
            m.seq += 20;
            m.advanced = true;
            return;
        }
        out.kind = match a.var { Var::Named => "named-authorises", Var::AsCallingContract => "named-is-calling-contract", _ => "someone-else" };
        let a_arr = [ctx.a.clone()];
        let call = match a.var {
            Var::Named | Var::Counterparty | Var::Owner | Var::Stranger | Var::Nobody | Var::NamedAltered | Var::NamedRootOnly => {
                let (t, f, args) = self.spec(ctx, m, ep, Named::A, false, false, false);
                let who: Vec<Address> = match a.var {
                    Var::Counterparty => vec![ctx.b.clone()],
                    Var::Owner => vec![iw.owner.clone()],
                    Var::Stranger => vec![ctx.s.clone()],
                    Var::Nobody => vec![],
                    _ => vec![ctx.a.clone()],
                };
                let auth = match a.var {
                    Var::NamedAltered => Auth::Altered(&a_arr),
                    Var::NamedRootOnly => Auth::RootOnly(&a_arr),
                    _ => Auth::By(&who),
                };
                w.call(&t, f, &args, auth)
            }
            Var::NamedOtherCall => {
                let (t, f, args) = self.spec(ctx, m, ep, Named::A, false, false, false);
                let (t2, f2, args2) = self.spec(ctx, m, ep, Named::A, true, false, false);
                w.call(&t, f, &args, Auth::ForOtherCall(&a_arr, &t2, f2, &args2))
            }
            Var::AsCallingContract | Var::ContractNamingOther => {
                let (t, f, args) = if a.var == Var::AsCallingContract {
                    self.spec(ctx, m, ep, Named::K, false, true, false)
                } else {
                    self.spec(ctx, m, ep, Named::A, false, false, false)
                };
                let argv: soroban_sdk::Vec<Val> = soroban_sdk::Vec::from_slice(env, &args);
                w.call(&ctx.k, "relay", &[t.to_val(), Symbol::new(env, f).to_val(), argv.to_val()], Auth::Nobody)
            }
            Var::NobodyZeroAmount => {
                let (t, f, args) = self.spec(ctx, m, ep, Named::A, false, false, true);
                w.call(&t, f, &args, Auth::Nobody)
            }
            Var::NamesTargetItself => {
                let (t, f, args) = self.spec(ctx, m, ep, Named::Target, false, false, false);
                w.call(&t, f, &args, Auth::Nobody)
            }
        };
        out.accepted = call.ok;
        let no_allowance = matches!(ep, Ep::TokenTransferFromNoAllowance | Ep::TokenBurnFromNoAllowance | Ep::TokenMintFromNegative | Ep::TokenOwnerTransferFrom | Ep::TokenOwnerBurnFrom);
        // the revocation is B's own operation: accepted iff B (the counterparty principal) signs
        if ep == Ep::GwValidateForeign {
            let consumed = call.ok && call.ret == Some(ScVal::Bool(true));
            out.accepted = false;
            out.expect(!consumed, "auth.outcome", || format!("a stranger validated the message approved for the named address: {:?}", call.ret));
            out.expect(h0 == w.state_hash(), "refused-but-changed-state", || "a stranger's refused validation changed the ledger (the named address's approval?)".into());
            return;
        }
        if matches!(ep, Ep::TokenShorten | Ep::TokenShortenExact) {
            let want = a.var == Var::Counterparty;
            out.expect(call.ok == want, "auth.outcome", || format!("re-approval by {:?}: ok={} ({})", a.var, call.ok, call.err));
            if call.ok && want {
                m.allow_exp = m.seq + 5;
                if ep == Ep::TokenShortenExact {
                    m.allow_left[0] = 2;
                    m.revoked = false;
                }
            } else if !call.ok {
                out.expect(h0 == w.state_hash(), "refused-but-changed-state", || format!("{:?}", a));
            }
            return;
        }
        if matches!(ep, Ep::TokenRevoke | Ep::TokenRevokePast) {
            let want = a.var == Var::Counterparty;
            out.expect(call.ok == want, "auth.outcome", || format!("revocation by {:?}: ok={} ({})", a.var, call.ok, call.err));
            if call.ok && want {
                m.revoked = true;
                m.allow_left[0] = 0;
            } else if !call.ok {
                out.expect(h0 == w.state_hash(), "refused-but-changed-state", || format!("{:?}", a));
            }
            return;
        }
        let delegated = matches!(ep, Ep::TokenTransferFrom | Ep::TokenBurnFrom);
        let k_calls = matches!(a.var, Var::AsCallingContract);
        // what B still lets the spender take (the delegated operations move 2)
        let allowance_ok = if !delegated {
            true
        } else if k_calls {
            m.allow_left[1] >= 2
        } else {
            !m.revoked && m.allow_left[0] >= 2 && m.allow_exp >= m.seq
        };
        let want = !no_allowance
            && allowance_ok
            && match a.var {
                Var::Named | Var::AsCallingContract => true,
                Var::NamedRootOnly => !self.nested(ep),
                _ => false,
            };
        out.expect(call.ok == want, "auth.outcome", || {
            format!("{:?} with {:?}: ok={} ({}), the statement says {}", ep, a.var, call.ok, call.err, if want { "accepted" } else { "refused" })
        });
        if !call.ok {
            out.expect(h0 == w.state_hash(), "refused-but-changed-state", || format!("{:?}", a));
            return;
        }
        if !want { return; }
        m.successes += 1;
        let ix = if a.var == Var::AsCallingContract { 1 } else { 0 };
        if delegated {
            m.allow_left[ix] -= 2;
        }
        match ep {
            Ep::ItsDeploy => m.salts_used[ix] += 1,
            Ep::GwValidateMessage => {
                // consumption happens exactly once per approved message
                let got = call.ret == Some(ScVal::Bool(true));
                let expect = !m.consumed[ix];
                out.expect(got == expect, "validate.consumed", || format!("returned {:?}, already consumed {}", call.ret, m.consumed[ix]));
                m.consumed[ix] = true;
            }
            _ => {}
        }
    }

    /// Entry points of the six contracts that this check does not drive by name (helpers exported
    /// by accident, functions added later, the token's aborting asset-interface stubs): each is
    /// called with nobody's authorisation and synthesised arguments; no principal's balance or
    /// granted allowance may shrink, and no approved message may get consumed.
    fn probe(&self, ctx: &Ctx, _m: &Model, out: &mut StepOut) {
        let iw = &ctx.iw;
        let w = &iw.w;
        let env = &w.env;
        let t1 = addr_from_sc(w, &iw.token_address_of(&ctx.t1_id));
        let holders = [&ctx.a, &ctx.b, &ctx.s, &ctx.k];
        let tokens = [&ctx.tok, &iw.gas_token, &iw.assets[0], &t1];
        let assets = |w: &World| -> Vec<i128> {
            let mut v = vec![];
            for t in tokens {
                for h in holders {
                    v.push(iw.balance(t, h).unwrap_or(0));
                }
            }
            v.push(w.query(&ctx.tok, "allowance", &[ctx.b.to_val(), ctx.a.to_val()]).and_then(|x| i128_of(&x)).unwrap_or(0));
            v
        };
        let addresses = [ctx.a.clone(), ctx.b.clone(), ctx.tok.clone()];
        let targets: [(&Address, &str, &[&str]); 6] = [
            (&ctx.tok, "/repo/contracts/interchain-token/src", &axmc::inventory::TOKEN_KNOWN),
            (&iw.gas, "/repo/contracts/axelar-gas-service/src", &axmc::inventory::GAS_KNOWN),
            (&iw.gw, "/repo/contracts/axelar-gateway/src", &axmc::inventory::GATEWAY_KNOWN),
            (&iw.its, "/repo/contracts/interchain-token-service/src", &axmc::inventory::ITS_KNOWN),
            (&ctx.ops, "/repo/contracts/axelar-operators/src", &axmc::inventory::OPERATORS_KNOWN),
            (&ctx.example, "/repo/contracts/example/src", &axmc::inventory::EXAMPLE_KNOWN),
        ];
        let calls = axmc::inventory::unknown_calls(w, "C07", &targets, &addresses, 32);
        if calls.is_empty() {
            return;
        }
        let before = assets(w);
        // nobody authorises / the contracts' owner authorises (the owner is none of the holders watched:
        // whatever an owner-only function does, it must not take from them)
        let owner = [iw.owner.clone()];
        for (contract, func, args) in calls {
            for by_owner in [false, true] {
                let snap = w.snap();
                let call = w.call(&contract, &func, &args, if by_owner { Auth::By(&owner) } else { Auth::Nobody });
                if call.ok {
                    let after = assets(w);
                    let shrunk = before.iter().zip(after.iter()).any(|(b, a)| a < b);
                    out.expect(!shrunk, "unknown-entry-point.debited-unauthorised", || {
                        format!(
                            "function `{}` (not among the known entry points), authorised by {}, reduced a balance or allowance of an address that authorised nothing: {:?} -> {:?}",
                            func, if by_owner { "the contracts' owner only" } else { "nobody" }, before, after
                        )
                    });
                }
                w.restore(&snap);
            }
        }
        let _ = env;
    }

    fn must_succeed_kinds(&self) -> Vec<&'static str> {
        vec!["named-authorises", "named-is-calling-contract"]
    }
}

fn main() {
    main_for(|tier| {
        let thorough = tier == "thorough";
        let mut o = Opts::new(tier, if thorough { 5 } else { 3 });
        o.min_depth = 2;
        o.rule = "27 entry points plus ledger advancement (token approve / transfer / transfer_from / burn / burn_from / transfer_from and burn_from against a holder who granted no allowance (always refused; also with the token's owner as the self-authorising spender) / mint_from / mint_from of a negative amount to a holder who authorised nothing (always refused) / a revocation (with a future and with a zero expiration), a shortening of the allowance and a re-approval of exactly one delegated operation's worth with a near expiration by the holder after which (or after whose expiry) the spender's delegated calls are refused; the holder's allowance is 3 and delegated calls move 2, so a second one exceeds it; gas pay_gas / add_gas; gateway call_contract / validate_message / a stranger's validate_message for the named address's approval (refused, nothing consumed); ITS deploy_interchain_token (naming the counterparty as minter) / deploy_remote_interchain_token / deploy_remote_canonical_token / interchain_transfer of a service-deployed and of a canonical token; operators execute; example send) x 12 authorisation modes {the named address; the counterparty / recipient; the contracts' owner; a stranger; nobody; the named address for an altered argument; the named address for the root call but not the nested debit or gas payment; the named address for the same function with other arguments; the named address being the calling contract; a contract naming someone else; the call naming the called contract itself with nobody authorising; all amounts and gas zero with nobody authorising}, in every state of all histories of successful operations up to the bound; accepted only in the three legitimate modes, ledger bit-identical otherwise; in every state every exported function of the six contracts that the check does not drive by name (found by scanning the source tree) is called with nobody's and with only the contracts' owner's authorisation, with arguments built from its parameter types, and must not reduce any other principal's balance or allowance".into();
        (C07 { max_successes: if thorough { 4 } else { 2 } }, o)
    });
}
