//! C16: executable-interface apps act only on approved messages, exactly once.
//! The shipped example app and a minimal app using the interface's validation helper,
//! over the finite message-status graph of the gateway, explored to fixpoint.

use axmc::aux::{MiniApp, Principal};
use axmc::explore::*;
use axmc::gw::*;
use axmc::refs::*;
use axmc::world::*;
use serde::{Deserialize, Serialize};
use soroban_sdk::xdr::ScVal;
use soroban_sdk::Address;

struct Ctx {
    w: World,
    gw: Address,
    keys: Keys,
    set: SetSpec,
    apps: Vec<Address>,
    third: Address,
}

#[derive(Clone, Copy, Debug, PartialEq, Eq, Hash, Serialize, Deserialize)]
struct Content {
    app: u8,
    src: u8,
    payload: u8,
}

#[derive(Clone, Debug, PartialEq, Eq, Hash)]
enum Status {
    NotApproved,
    Approved(Content),
    Executed,
}

#[derive(Clone, Hash)]
struct Model {
    advances: u8,
    status: Vec<Status>,
    mini_count: u32,
    rotations: u8,
}

#[derive(Clone, Debug, Serialize, Deserialize)]
enum Act {
    Approve { key: usize, c: Content },
    /// one signed batch with two messages, in this order
    ApproveBatch { first: (usize, Content), second: (usize, Content) },
    Execute { app: u8, key: usize, src: u8, payload: u8 },
    /// a third party calls gateway.validate_message for itself (it is not the destination)
    ThirdPartyValidate { key: usize, src: u8, payload: u8 },
    Advance(u32),
    /// the signer set is rotated (statuses must not care)
    Rotate,
}

struct C16;

// the fourth key has an empty message id and is approved nowhere
// keys 3.. are approved nowhere: an empty message id, and three "siblings" of key 0 whose chain and
// id, joined by '_', '-' or ':', give the same string as key 0's
const KEYS: [(&str, &str); 7] = [("c", "1_x-y:z"), ("c", "2"), ("d", "1"), ("c", ""), ("c_1", "x-y:z"), ("c-1_x", "y:z"), ("c:1_x-y", "z")];
const APPROVABLE: usize = 2; // the third key is never approved

/// the two source addresses differ only in letter case
/// 13 bytes, so that the XDR form of the string carries padding; source 2 (delivered, approved nowhere) is
/// source 0 followed by a NUL byte, which the padding would swallow in an unprefixed encoding
fn src_str(i: u8) -> &'static str { match i { 0 => "0xSourceAddr1", 1 => "0xsourceaddr1", _ => "0xSourceAddr1\0" } }
/// payload 2 is the empty payload; "payload" 3 exists only as an approved hash: the all-zero hash, which
/// is the hash of no payload at all
fn payload_of(i: u8) -> Vec<u8> { match i { 0 => b"payload one".to_vec(), 1 => b"payload 2".to_vec(), _ => vec![] } }
fn approved_hash(i: u8) -> [u8; 32] { if i == 3 { [0u8; 32] } else { keccak(&payload_of(i)) } }

impl Scenario for C16 {
    type Ctx = Ctx;
    type M = Model;
    type A = Act;

    fn id(&self) -> &'static str { "C16" }
    fn n_configs(&self) -> usize { 1 }
    fn config_label(&self, _: usize) -> String { "gateway + shipped example app + minimal app using validate_message".into() }
    fn world<'a>(&self, ctx: &'a Ctx) -> &'a World { &ctx.w }

    fn build(&self, _c: usize) -> (Ctx, Model) {
        let w = World::new();
        let env = &w.env;
        let owner = env.register(Principal, ());
        let operator = env.register(Principal, ());
        let keys = Keys::new(2);
        let set = SetSpec { signers: vec![(0, 1)], threshold: 1, nonce: 1 };
        let gw = register_gateway(&w, None, &owner, &operator, &DOMAIN, 0, 0, &[set.raw(&keys)]);
        let gas = env.register(axelar_gas_service::AxelarGasService, (owner.clone(), operator.clone()));
        let example = env.register(example::Example, (gw.clone(), gas.clone()));
        let mini = env.register(MiniApp, (gw.clone(),));
        // an account-type address made of the same 32 bytes as the example app's contract id: an
        // approval naming it is not an approval for the app
        let twin = {
            let raw = match w.sc_addr(&example) {
                soroban_sdk::xdr::ScAddress::Contract(h) => h.0,
                _ => unreachable!(),
            };
            axmc::its::addr_from_sc(
                &w,
                &soroban_sdk::xdr::ScAddress::Account(soroban_sdk::xdr::AccountId(soroban_sdk::xdr::PublicKey::PublicKeyTypeEd25519(soroban_sdk::xdr::Uint256(raw)))),
            )
        };
        (Ctx { w, gw, keys, set, apps: vec![example, mini, twin], third: operator.clone() }, Model { advances: 0, status: vec![Status::NotApproved; 7], mini_count: 0, rotations: 0 })
    }

    fn actions(&self, _ctx: &Ctx, m: &Model) -> Vec<Act> {
        let mut v = vec![];
        if m.advances < 1 {
            v.push(Act::Advance(20));
            // ~405 days: longer than the maximum entry TTL, so every temporary entry is gone by then, while
            // the world's keeper (World::set_seq) keeps instance / persistent entries alive
            v.push(Act::Advance(7_000_000));
        }
        for key in 0..APPROVABLE {
            for app in 0..2u8 {
                for src in 0..2u8 {
                    for payload in 0..2u8 {
                        v.push(Act::Approve { key, c: Content { app, src, payload } });
                    }
                }
            }
            // approved for the account-type twin of the example app's address
            v.push(Act::Approve { key, c: Content { app: 2, src: 0, payload: 0 } });
            // approved with the empty payload's hash / with the all-zero hash
            for app in 0..2u8 {
                v.push(Act::Approve { key, c: Content { app, src: 0, payload: 2 } });
                v.push(Act::Approve { key, c: Content { app, src: 0, payload: 3 } });
            }
        }
        let c0 = Content { app: 0, src: 0, payload: 0 };
        let c1 = Content { app: 1, src: 0, payload: 0 };
        // the last batch leads with a message from another source chain (its key is approved nowhere else)
        for (a, b) in [((0usize, c0), (1usize, c0)), ((1, c0), (0, c0)), ((1, c1), (0, c1)), ((0, c1), (0, c0)), ((2, c0), (0, c0))] {
            v.push(Act::ApproveBatch { first: a, second: b });
        }
        for key in 0..2usize {
            v.push(Act::ThirdPartyValidate { key, src: 0, payload: 0 });
        }
        if m.rotations < 1 {
            v.push(Act::Rotate);
        }
        for app in 0..2u8 {
            // deliveries with the empty payload
            for key in 0..2usize {
                v.push(Act::Execute { app, key, src: 0, payload: 2 });
            }
            for key in 0..2usize {
                for payload in 0..2u8 {
                    v.push(Act::Execute { app, key, src: 2, payload });
                }
            }
            for key in 0..7usize {
                for src in 0..2u8 {
                    for payload in 0..2u8 {
                        if key >= 2 && (src != 0 || payload != 0) { continue; }
                        v.push(Act::Execute { app, key, src, payload });
                    }
                }
            }
        }
        v
    }

    fn step(&self, ctx: &Ctx, m: &mut Model, a: &Act, out: &mut StepOut) {
        let w = &ctx.w;
        let env = &w.env;
        match a {
            Act::Advance(n) => {
                out.kind = "advance";
                out.accepted = true;
                w.set_seq(w.seq() + n);
                w.set_time(w.now() + 5 * *n as u64);
                m.advances += 1;
            }
            Act::Rotate => {
                out.kind = "rotate";
                let next = SetSpec { signers: vec![(1, 1)], threshold: 1, nonce: 2 };
                let raw = next.raw(&ctx.keys);
                let proof = honest_proof(&ctx.keys, &ctx.set, &DOMAIN, &raw.rotation_data_hash());
                let call = w.call(&ctx.gw, "rotate_signers", &[to_val(env, &raw.scval()), to_val(env, &proof), w.v(false)], Auth::Nobody);
                out.accepted = call.ok;
                out.expect(call.ok, "rotate.rejected", || call.err.clone());
                if call.ok {
                    m.rotations += 1;
                }
            }
            Act::Approve { key, c } => {
                out.kind = "approve";
                let (chain, id) = KEYS[*key];
                let msg = msg_scval(
                    &Msg { chain: chain.into(), id: id.into(), src: src_str(c.src).into(), dest: 0, payload_hash: approved_hash(c.payload) },
                    &w.sc_addr(&ctx.apps[c.app as usize]),
                );
                let set = if m.rotations == 0 { ctx.set.clone() } else { SetSpec { signers: vec![(1, 1)], threshold: 1, nonce: 2 } };
                let call = approve(w, &ctx.gw, &ctx.keys, &set, &DOMAIN, &[msg]);
                out.accepted = call.ok;
                out.expect(call.ok, "approve.rejected", || call.err.clone());
                if call.ok && m.status[*key] == Status::NotApproved {
                    m.status[*key] = Status::Approved(*c);
                }
            }
            Act::ApproveBatch { first, second } => {
                out.kind = "approve";
                let mk = |(key, c): &(usize, Content)| {
                    let (chain, id) = KEYS[*key];
                    msg_scval(
                        &Msg { chain: chain.into(), id: id.into(), src: src_str(c.src).into(), dest: 0, payload_hash: approved_hash(c.payload) },
                        &w.sc_addr(&ctx.apps[c.app as usize]),
                    )
                };
                let set = if m.rotations == 0 { ctx.set.clone() } else { SetSpec { signers: vec![(1, 1)], threshold: 1, nonce: 2 } };
                let call = approve(w, &ctx.gw, &ctx.keys, &set, &DOMAIN, &[mk(first), mk(second)]);
                out.accepted = call.ok;
                out.expect(call.ok, "approve.rejected", || call.err.clone());
                if call.ok {
                    for (key, c) in [first, second] {
                        if m.status[*key] == Status::NotApproved {
                            m.status[*key] = Status::Approved(*c);
                        }
                    }
                }
            }
            Act::ThirdPartyValidate { key, src, payload } => {
                out.kind = "third-party-validate";
                let (chain, id) = KEYS[*key];
                let h0 = w.state_hash();
                let t = [ctx.third.clone()];
                let call = w.call(
                    &ctx.gw,
                    "validate_message",
                    &[ctx.third.to_val(), to_val(env, &sstr(chain)), to_val(env, &sstr(id)), to_val(env, &sstr(src_str(*src))), to_val(env, &sbytes(&keccak(&payload_of(*payload))))],
                    Auth::By(&t),
                );
                out.accepted = call.ok && call.ret_bool() == Some(true);
                out.expect(!out.accepted, "third-party.consumed", || format!("{:?}: a non-destination consumed the message", a));
                out.expect(h0 == w.state_hash(), "third-party.changed-state", || {
                    format!("{:?}: a refused validation changed the gateway's record (status {:?})", a, m.status[*key])
                });
            }
            Act::Execute { app, key, src, payload } => {
                out.kind = if *app == 0 { "execute-example" } else { "execute-miniapp" };
                let (chain, id) = KEYS[*key];
                let h0 = w.state_hash();
                let target = &ctx.apps[*app as usize];
                let p = payload_of(*payload);
                let call = w.call(
                    target,
                    "execute",
                    &[to_val(env, &sstr(chain)), to_val(env, &sstr(id)), to_val(env, &sstr(src_str(*src))), to_val(env, &sbytes(&p))],
                    Auth::Nobody,
                );
                let want = m.status[*key] == Status::Approved(Content { app: *app, src: *src, payload: *payload });
                out.accepted = call.ok;
                out.expect(call.ok == want, &format!("{}.outcome", out.kind), || {
                    format!("{:?} with status {:?}: ok={} ({}), model says {}", a, m.status[*key], call.ok, call.err, want)
                });
                if call.ok {
                    let r = match_events(
                        &call.events,
                        &[EvPat { contract: w.sc_addr(target), name: "executed", must: vec![sstr(chain), sstr(id), sstr(src_str(*src)), sbytes(&p)] }],
                        &["executed"],
                    );
                    out.expect(r.is_ok(), "execute.app-event", || r.unwrap_err());
                    let n = call.events.iter().filter(|e| e.name() == "message_executed").count();
                    out.expect(n == 1, "execute.gateway-not-consumed-once", || format!("{} message_executed events", n));
                    if want {
                        m.status[*key] = Status::Executed;
                        if *app == 1 { m.mini_count += 1; }
                    }
                } else {
                    out.expect(h0 == w.state_hash(), "execute.rejected-but-changed-state", || format!("{:?}", a));
                }
            }
        }
    }

    fn probe(&self, ctx: &Ctx, m: &Model, out: &mut StepOut) {
        let w = &ctx.w;
        let env = &w.env;
        for (k, (chain, id)) in KEYS.iter().enumerate() {
            let ex = w.query(&ctx.gw, "is_message_executed", &[to_val(env, &sstr(chain)), to_val(env, &sstr(id))]);
            out.expect(ex == Some(ScVal::Bool(m.status[k] == Status::Executed)), "probe.is_message_executed", || format!("{:?}: {:?} vs {:?}", (chain, id), ex, m.status[k]));
        }
        let q = w.query(&ctx.apps[1], "count", &[]);
        out.expect(q == Some(su32(m.mini_count)), "probe.miniapp-count", || format!("{:?} vs {}", q, m.mini_count));
    }

    fn sweep_targets(&self, ctx: &Ctx) -> (Vec<(Address, &'static str, &'static [&'static str])>, Vec<Address>) {
        (vec![(ctx.gw.clone(), "/repo/contracts/axelar-gateway/src", &axmc::inventory::GATEWAY_KNOWN[..]), (ctx.apps[0].clone(), "/repo/contracts/example/src", &axmc::inventory::EXAMPLE_KNOWN[..])], vec![ctx.apps[0].clone(), ctx.apps[1].clone(), ctx.gw.clone()])
    }

    fn must_succeed_kinds(&self) -> Vec<&'static str> {
        vec!["approve", "execute-example", "execute-miniapp"]
    }
}

fn main() {
    axmc::inventory::set_strings(&[KEYS[0].0, KEYS[0].1]);
    main_for(|tier| {
        let mut o = Opts::new(tier, if tier == "thorough" { 12 } else { 8 });
        o.min_depth = 3;
        o.xcheck = tier == "thorough";
        o.rule = "all sequences over gateway approvals (2 message ids x destination {example app, minimal app} x 2 source addresses x 2 payloads, plus approvals carrying the empty payload's hash and the all-zero hash, plus the account-type address made of the example app's 32 bytes; two-message batches incl. one led by a message from another source chain) and deliveries app.execute(chain, id, source address, payload) for both apps x 7 ids (one on another chain; four approved nowhere: an empty id and three whose chain and id joined by '_', '-' or ':' coincide with an approvable key's) x 2 source addresses x 2 payloads; so never-approved, approved-for-the-other-app, other payload / source address / id / chain, delivered twice and conforming deliveries all occur; deliveries with the empty payload; deliveries naming the approved source address followed by a NUL byte (the addresses are 13 bytes long, so their XDR form is padded); one signer rotation; a third party asking the gateway directly (refused, must change nothing); explored to fixpoint of the finite status graph".into();
        (C16, o)
    });
}
