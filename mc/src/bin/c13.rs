//! C13: outbound calls are announced exactly, and only under the sender's authority.
//! Exhaustive sweep over a grid of senders x authorisations x destination strings x payloads
//! from three gateway states; independent Keccak-256.

use axmc::aux::{Caller, Principal};
use axmc::explore::*;
use axmc::gw::*;
use axmc::refs::*;
use axmc::world::*;
use serde::{Deserialize, Serialize};
use soroban_sdk::{Address, String as SString, Val};

struct Ctx {
    w: World,
    gw: Address,
    p: Vec<Address>,
    caller: Address,
    account: Address,
    owner: Address,
}

#[derive(Clone, Copy, Debug, PartialEq, Eq, Serialize, Deserialize)]
enum Who {
    /// principal P0 names itself; `auth`: 0 = P0 signs, 1 = P1 signs, 2 = nobody, 3 = P0 signs
    /// a different call, 4 = P0 and P1 sign
    Principal(u8),
    /// a contract names itself and calls the gateway directly
    ContractCaller,
    /// a contract names *another* address (P0) while calling
    ContractNamingOther,
    /// account-type (G...) address; authorised (recording mode) or not
    Account(bool),
    /// a direct, unauthorised call naming a *contract* as sender: 0 = the gateway itself,
    /// 1 = another contract, 2 = the gateway's owner principal
    UnauthorisedNaming(u8),
}

#[derive(Clone, Debug, Serialize, Deserialize)]
struct Act {
    who: Who,
    chain: u8,
    addr: u8,
    payload: u32,
}

struct C13 {
    thorough: bool,
}

const PAYLOADS: [u32; 14] = [0, 1, 31, 32, 33, 135, 136, 137, 272, 4096, 40960, 65_536, 65_537, 200_000];

fn chain_str(i: u8) -> String {
    match i {
        0 => "".into(),
        1 => "ethereum".into(),
        2 => "x".repeat(300),
        3 => "chaîne-目的地-🚀".into(),
        // mixed case with surrounding whitespace: must be announced byte for byte
        _ => " Avalanche-C ".into(),
    }
}
fn addr_str(i: u8) -> String {
    match i {
        0 => "0x00000000000000000000000000000000DeaDBeef".into(),
        1 => "".into(),
        _ => "адрес/مقصد".into(),
    }
}
fn payload_bytes(n: u32) -> Vec<u8> {
    (0..n).map(|i| (i.wrapping_mul(31).wrapping_add(7) % 251) as u8).collect()
}

impl Scenario for C13 {
    type Ctx = Ctx;
    type M = u8;
    type A = Act;

    fn id(&self) -> &'static str {
        "C13"
    }
    fn n_configs(&self) -> usize {
        5
    }
    fn config_label(&self, c: usize) -> String {
        [
            "fresh gateway",
            "gateway with approvals (one executed)",
            "gateway after a rotation",
            "gateway (retention 1) after three rotations",
            "gateway with a 1000 s rotation delay, just after an operator-bypass rotation",
        ][c]
        .into()
    }
    fn world<'a>(&self, ctx: &'a Ctx) -> &'a World {
        &ctx.w
    }

    fn build(&self, c: usize) -> (Ctx, u8) {
        let w = World::new();
        let env = &w.env;
        let owner = env.register(Principal, ());
        let operator = env.register(Principal, ());
        let p0 = env.register(Principal, ());
        let p1 = env.register(Principal, ());
        let caller = env.register(Caller, ());
        let account = Address::from_string(&SString::from_str(
            env,
            "GBZXN7PIRZGNMHGA7MUUUF4GWPY5AYPV6LY4UV2GL6VJGIQRXFDNMADI",
        ));
        let keys = Keys::new(2);
        let set = SetSpec { signers: vec![(0, 1)], threshold: 1, nonce: 1 };
        let delay = if c == 4 { 1000 } else { 0 };
        w.set_time(50_000);
        let gw = register_gateway(&w, None, &owner, &operator, &DOMAIN, delay, 1, &[set.raw(&keys)]);
        if c == 1 {
            let m1 = msg_scval(&Msg { chain: "a".into(), id: "1".into(), src: "s".into(), dest: 0, payload_hash: [1; 32] }, &w.sc_addr(&p0));
            let m2 = msg_scval(&Msg { chain: "a".into(), id: "2".into(), src: "s".into(), dest: 0, payload_hash: [2; 32] }, &w.sc_addr(&p0));
            assert!(approve(&w, &gw, &keys, &set, &DOMAIN, &[m1, m2]).ok);
            let r = w.call(
                &gw,
                "validate_message",
                &[p0.to_val(), to_val(env, &sstr("a")), to_val(env, &sstr("1")), to_val(env, &sstr("s")), to_val(env, &sbytes(&[1; 32]))],
                Auth::By(&[p0.clone()]),
            );
            assert!(r.ok);
        }
        if c == 2 {
            let next = SetSpec { signers: vec![(1, 1)], threshold: 1, nonce: 2 };
            let proof = honest_proof(&keys, &set, &DOMAIN, &next.raw(&keys).rotation_data_hash());
            let r = w.call(&gw, "rotate_signers", &[to_val(env, &next.raw(&keys).scval()), to_val(env, &proof), w.v(false)], Auth::Nobody);
            assert!(r.ok);
        }
        if c == 3 || c == 4 {
            let mut latest = set.clone();
            for r in 0..(if c == 3 { 3 } else { 1 }) {
                let next = SetSpec { signers: vec![((r + 1) % 2, 1)], threshold: 1, nonce: 20 + r as u8 };
                let proof = honest_proof(&keys, &latest, &DOMAIN, &next.raw(&keys).rotation_data_hash());
                let op = [operator.clone()];
                let rr = w.call(&gw, "rotate_signers", &[to_val(env, &next.raw(&keys).scval()), to_val(env, &proof), w.v(c == 4)], if c == 4 { Auth::By(&op) } else { Auth::Nobody });
                assert!(rr.ok, "{}", rr.err);
                latest = next;
            }
        }
        (Ctx { w, gw, p: vec![p0, p1], caller, account, owner }, 0)
    }

    fn actions(&self, _ctx: &Ctx, _m: &u8) -> Vec<Act> {
        let mut v = vec![];
        let whos = [
            Who::Principal(0),
            Who::Principal(1),
            Who::Principal(2),
            Who::Principal(3),
            Who::Principal(4),
            Who::ContractCaller,
            Who::ContractNamingOther,
            Who::Account(true),
            Who::Account(false),
            Who::UnauthorisedNaming(0),
            Who::UnauthorisedNaming(1),
            Who::UnauthorisedNaming(2),
        ];
        for who in whos {
            for chain in 0..5u8 {
                for addr in 0..3u8 {
                    if self.thorough && chain == 1 && addr == 0 {
                        // every payload length around all Keccak-256 block boundaries up to 3 blocks, plus large ones
                        for payload in (0..=410u32).chain([4096, 16384, 16385, 40960, 65536, 65537, 131_072, 131_073, 200_000, 1_000_000]) {
                            v.push(Act { who, chain, addr, payload });
                        }
                        continue;
                    }
                    for payload in PAYLOADS {
                        v.push(Act { who, chain, addr, payload });
                    }
                }
            }
        }
        v
    }

    fn step(&self, ctx: &Ctx, _m: &mut u8, a: &Act, out: &mut StepOut) {
        let w = &ctx.w;
        let env = &w.env;
        let chain = chain_str(a.chain);
        let addr = addr_str(a.addr);
        let payload = payload_bytes(a.payload);
        let cv = to_val(env, &sstr(&chain));
        let av = to_val(env, &sstr(&addr));
        let pv = to_val(env, &sbytes(&payload));
        let h0 = w.state_hash();
        let (call, sender, want): (Call, Address, bool) = match a.who {
            Who::Principal(mode) => {
                out.kind = "principal";
                let s = ctx.p[0].clone();
                let args = [s.to_val(), cv, av, pv];
                let p0 = [ctx.p[0].clone()];
                let p1 = [ctx.p[1].clone()];
                let both = [ctx.p[0].clone(), ctx.p[1].clone()];
                let auth = match mode {
                    0 => Auth::By(&p0),
                    1 => Auth::By(&p1),
                    2 => Auth::Nobody,
                    3 => Auth::Altered(&p0),
                    _ => Auth::By(&both),
                };
                (w.call(&ctx.gw, "call_contract", &args, auth), s, mode == 0 || mode == 4)
            }
            Who::ContractCaller => {
                out.kind = "contract-caller";
                let args: soroban_sdk::Vec<Val> = soroban_sdk::Vec::from_slice(env, &[soroban_sdk::Symbol::new(env, "__self__").to_val(), cv, av, pv]);
                let c = w.call(
                    &ctx.caller,
                    "relay",
                    &[ctx.gw.to_val(), soroban_sdk::Symbol::new(env, "call_contract").to_val(), args.to_val()],
                    Auth::Nobody,
                );
                (c, ctx.caller.clone(), true)
            }
            Who::ContractNamingOther => {
                out.kind = "contract-naming-other";
                let args: soroban_sdk::Vec<Val> = soroban_sdk::Vec::from_slice(env, &[ctx.p[0].to_val(), cv, av, pv]);
                let c = w.call(
                    &ctx.caller,
                    "relay",
                    &[ctx.gw.to_val(), soroban_sdk::Symbol::new(env, "call_contract").to_val(), args.to_val()],
                    Auth::Nobody,
                );
                (c, ctx.p[0].clone(), false)
            }
            Who::UnauthorisedNaming(k) => {
                out.kind = "unauthorised-naming";
                let s = match k { 0 => ctx.gw.clone(), 1 => ctx.caller.clone(), _ => ctx.owner.clone() };
                let args = [s.to_val(), cv, av, pv];
                let c = w.call(&ctx.gw, "call_contract", &args, Auth::Nobody);
                (c, s, false)
            }
            Who::Account(authorised) => {
                out.kind = if authorised { "account" } else { "account-unauthorised" };
                let s = ctx.account.clone();
                let args = [s.to_val(), cv, av, pv];
                let c = w.call(&ctx.gw, "call_contract", &args, if authorised { Auth::Setup } else { Auth::Nobody });
                (c, s, authorised)
            }
        };
        out.accepted = call.ok;
        out.expect(call.ok == want, "call_contract.outcome", || {
            format!("{:?}: ok={} ({}), model says {}", a, call.ok, call.err, want)
        });
        out.expect(h0 == w.state_hash(), "call_contract.changed-gateway-state", || format!("{:?}", a));
        if call.ok {
            let r = match_events(
                &call.events,
                &[EvPat {
                    contract: w.sc_addr(&ctx.gw),
                    name: "contract_called",
                    must: vec![w.sc_addr_val(&sender), sstr(&chain), sstr(&addr), sbytes(&keccak(&payload)), sbytes(&payload)],
                }],
                &["contract_called", "message_approved", "message_executed", "signers_rotated"],
            );
            out.expect(r.is_ok(), "call_contract.announcement", || {
                axmc::explore::truncate(&r.unwrap_err(), 600)
            });
            let from_gw = call.events.iter().filter(|e| e.contract == w.sc_addr(&ctx.gw)).count();
            out.expect(from_gw == 1, "call_contract.event-count", || format!("{} gateway events", from_gw));
        } else {
            out.expect(call.events.is_empty(), "call_contract.refused-but-event", || format!("{:?}", a));
        }
    }

    /// Entry points of the gateway that this check does not know (a helper exported by accident,
    /// or a genuinely new function): each is called without any authorisation, with arguments built
    /// from its parameter types; whatever it is meant to do, it must not announce a call.
    fn probe(&self, ctx: &Ctx, _m: &u8, out: &mut StepOut) {
        let w = &ctx.w;
        let env = &w.env;
        let addresses = [ctx.p[0].clone(), ctx.gw.clone(), ctx.caller.clone()];
        let targets: [(&Address, &str, &[&str]); 1] = [(&ctx.gw, "/repo/contracts/axelar-gateway/src", &axmc::inventory::GATEWAY_KNOWN)];
        let owner = [ctx.owner.clone()];
        let sender = [ctx.p[0].clone()];
        let everybody = [ctx.p[0].clone(), ctx.owner.clone(), ctx.caller.clone()];
        let unknown = axmc::inventory::unknown_calls(w, "C13", &targets, &addresses, 64);
        // an announcement made by any gateway function carries the payload whose Keccak-256 it names
        let exact = |events: &Vec<Ev>, func: &str, how: &str, out: &mut StepOut| {
            for e in events.iter().filter(|e| e.name() == "contract_called") {
                let bytes: Vec<Vec<u8>> = e.leaves().iter().filter_map(|v| if let soroban_sdk::xdr::ScVal::Bytes(b) = v { Some(b.to_vec()) } else { None }).collect();
                let ok = bytes.len() >= 2 && bytes[bytes.len() - 2].len() == 32 && bytes[bytes.len() - 2] == keccak(&bytes[bytes.len() - 1]).to_vec();
                out.expect(ok, "unknown-entry-point.announcement-not-exact", || {
                    format!("gateway function `{}` (not among the known entry points), called {}, announced a call whose hash is not the Keccak-256 of the payload it carries: {:?}", func, how, e)
                });
            }
        };
        for (contract, func, args) in unknown.iter().cloned() {
            // with everybody's authorisation: what is announced must be exact; and whatever it
            // prepared, nothing may be announced afterwards by a function called with nobody's
            let snap = w.snap();
            let call = w.call(&contract, &func, &args, Auth::By(&everybody));
            if call.ok {
                exact(&call.events, &func, "with every principal's authorisation", out);
                let mid = w.snap();
                // (a two-step send in which the sender authorises the first step is fine as long as
                // the second step can only announce in that sender's name)
                use soroban_sdk::TryFromVal;
                let authorised: Vec<soroban_sdk::xdr::ScVal> = args
                    .iter()
                    .filter_map(|v| soroban_sdk::xdr::ScVal::try_from_val(env, v).ok())
                    .filter(|v| matches!(v, soroban_sdk::xdr::ScVal::Address(_)))
                    .collect();
                for (c2, f2, a2) in unknown.iter() {
                    let follow = w.call(c2, f2, a2, Auth::Nobody);
                    let foreign = follow
                        .events
                        .iter()
                        .filter(|e| e.name() == "contract_called")
                        .filter(|e| e.leaves().iter().find(|v| matches!(v, soroban_sdk::xdr::ScVal::Address(_))).map(|named| !authorised.contains(named)).unwrap_or(true))
                        .count();
                    out.expect(!(follow.ok && foreign > 0), "unknown-entry-point.announced-unauthorised", || {
                        format!("after `{}` (authorised), gateway function `{}` (neither among the known entry points), called with nobody's authorisation, announced {} call(s) in the name of an address the first call never mentioned: {:?}", func, f2, foreign, follow.events.first())
                    });
                    w.restore(&mid);
                }
            }
            w.restore(&snap);
            for by_owner in [false, true] {
                let snap = w.snap();
                let call = w.call(&contract, &func, &args, if by_owner { Auth::By(&owner) } else { Auth::Nobody });
                if !by_owner {
                    let announced = call.events.iter().filter(|e| e.name() == "contract_called").count();
                    out.expect(!(call.ok && announced > 0), "unknown-entry-point.announced-unauthorised", || {
                        format!("gateway function `{}` (not among the known entry points), called with nobody's authorisation, emitted {} contract_called event(s): {:?}", func, announced, call.events.first())
                    });
                }
                if call.ok {
                    exact(&call.events, &func, if by_owner { "on the owner's authorisation" } else { "unauthorised" }, out);
                    // whatever that function switched (on the owner's or on nobody's word): an outbound
                    // call that still succeeds must still be announced, exactly once and exactly
                    let payload = vec![0x12u8, 0x34];
                    let c2 = w.call(
                        &ctx.gw,
                        "call_contract",
                        &[ctx.p[0].to_val(), to_val(env, &sstr("ethereum")), to_val(env, &sstr("0xdest")), to_val(env, &sbytes(&payload))],
                        Auth::By(&sender),
                    );
                    if c2.ok {
                        let r = match_events(
                            &c2.events,
                            &[EvPat {
                                contract: w.sc_addr(&ctx.gw),
                                name: "contract_called",
                                must: vec![w.sc_addr_val(&ctx.p[0]), sstr("ethereum"), sstr("0xdest"), sbytes(&keccak(&payload)), sbytes(&payload)],
                            }],
                            &["contract_called"],
                        );
                        out.expect(r.is_ok(), "unknown-entry-point.silenced-announcement", || {
                            format!("after gateway function `{}` ran ({}), a successful call_contract was not announced: {}", func, if by_owner { "authorised by the owner" } else { "unauthorised" }, axmc::explore::truncate(&r.unwrap_err(), 300))
                        });
                    }
                }
                w.restore(&snap);
            }
        }
        let _ = env;
    }

    fn must_succeed_kinds(&self) -> Vec<&'static str> {
        vec!["principal", "contract-caller", "account"]
    }
}

fn main() {
    main_for(|tier| {
        let mut o = Opts::new(tier, 1);
        o.level = "exploration";
        o.rule = "exhaustive grid from 5 gateway states (fresh, with approvals, after a rotation, after three rotations with retention 1, inside the rotation-delay window after a bypass rotation): sender/authorisation in {principal signing; another principal signing; nobody; principal signing a different call; both signing; contract naming itself as caller; contract naming another address; account-type address authorised / unauthorised; unauthorised direct calls naming the gateway itself, another contract, the gateway's owner} x destination chain {empty, lower-case ASCII, 300 chars, multi-byte, mixed case with surrounding blanks} x destination address {hex, empty, non-ASCII} x payload length {0,1,31,32,33,135,136,137,272,4096,40960,65536,65537,200000} (Keccak rate boundaries; thorough: every length 0..=410 and 16 KiB / 16 KiB+1 / 64 KiB / 64 KiB+1 / 128 KiB / 128 KiB+1 / 1,000,000 for the ASCII destination); in every base state every gateway entry point found in the source tree that is not in the check's inventory is called unauthorised (it must not announce a call) and on the owner's authorisation with arguments built from its parameter types, and an outbound call that succeeds afterwards must still be announced; such a function is also called with every principal's authorisation: any call it announces must carry the payload whose Keccak-256 it names, and no unknown function called unauthorised right afterwards may announce a call in the name of an address the authorised call did not mention; one case is non-trivial and distinct when its (base state, sender mode, strings, payload) tuple differs".into();
        (C13 { thorough: tier == "thorough" }, o)
    });
}
