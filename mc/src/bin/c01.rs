//! C01: approvals need threshold-weight signatures from a live signer set.
//! Bounded-exhaustive enumeration of the proof space against an independent acceptance
//! predicate, from base states reached by real rotation histories (DESIGN.md section 4, C01).

use axmc::aux::Principal;
use axmc::explore::*;
use axmc::gw::*;
use axmc::refs::*;
use axmc::world::*;
use serde::{Deserialize, Serialize};
use soroban_sdk::xdr::ScVal;
use soroban_sdk::Address;

const MAX: u128 = u128::MAX;

/// per-signer signature status
#[derive(Clone, Copy, Debug, PartialEq, Eq, Hash, Serialize, Deserialize)]
enum St {
    Unsigned,
    Valid,
    OtherDomain,
    OtherCommand,
    OtherBatch,
    OtherSetHash,
    OtherKey,
    FlipR,
    FlipS,
}
const ALL_ST: [St; 9] = [
    St::Unsigned,
    St::Valid,
    St::OtherDomain,
    St::OtherCommand,
    St::OtherBatch,
    St::OtherSetHash,
    St::OtherKey,
    St::FlipR,
    St::FlipS,
];
const SMALL_ST: [St; 3] = [St::Unsigned, St::Valid, St::FlipS];

#[derive(Clone, Copy, Debug, PartialEq, Eq, Hash, Serialize, Deserialize)]
enum Tamper {
    DropFirst,
    DropLast,
    AddSigner,
    DupFirst,
    SwapFirstTwo,
    WeightPlus,
    WeightMinus,
    ThresholdPlus,
    ThresholdMinus,
    OtherNonce,
}
const TAMPERS: [Tamper; 10] = [
    Tamper::DropFirst,
    Tamper::DropLast,
    Tamper::AddSigner,
    Tamper::DupFirst,
    Tamper::SwapFirstTwo,
    Tamper::WeightPlus,
    Tamper::WeightMinus,
    Tamper::ThresholdPlus,
    Tamper::ThresholdMinus,
    Tamper::OtherNonce,
];

#[derive(Clone, Copy, Debug, PartialEq, Eq, Hash, Serialize, Deserialize)]
enum BatchDev {
    /// submitted batch == signed batch
    None,
    OtherChain,
    OtherId,
    OtherSource,
    OtherDest,
    OtherPayloadHash,
    ExtraMessage,
    MissingMessage,
    Reordered,
}

#[derive(Clone, Debug, Serialize, Deserialize)]
enum Act {
    /// honest declared set, per-signer statuses; `approve` = approve_messages, else validate_proof
    Vector { st: Vec<St>, approve: bool },
    /// tampered declared set, all signers sign; `over_tampered`: digest built from the tampered
    /// set's hash instead of the true set's
    /// `st`: per declared entry 0 = unsigned, 1 = signed, 2 = signed with a flipped bit; empty = all signed
    Tampered { t: Tamper, over_tampered: bool, approve: bool, st: Vec<u8> },
    /// all signers sign batch `signed`; a batch deviating in one respect is submitted
    Batch { kind: u8, dev: BatchDev },
}

#[derive(Clone)]
struct SignerCfg {
    weights: Vec<u128>,
    threshold: u128,
}

/// (retention, rotations after installing the set under test)
#[derive(Clone, Copy, Debug)]
struct Hist {
    retention: u64,
    rotations: usize,
    /// try to install a set that lists one key twice (only possible on a broken tree); if the
    /// gateway takes it, that set becomes the set under test and weight is counted per distinct key
    dup_attempt: bool,
    /// ledgers that pass after the set was installed (no rotation in between)
    advance: u32,
    /// message m1 is already approved (1) or approved and executed (2) before the submission
    pre: u8,
    /// the gateway is constructed with two initial sets: 1 = [other, set under test],
    /// 2 = [set under test, other] (the set under test is then one epoch old)
    init: u8,
}

struct Ctx {
    w: World,
    gw: Address,
    keys: Keys,
    set: SetSpec,
    dest: Address,
    retained: bool,
    full: bool,
    skip: bool,
    pre: u8,
}

struct C01 {
    cfgs: Vec<(SignerCfg, Hist, bool)>,
    thorough: bool,
}

fn scfg(w: &[u128], t: u128) -> SignerCfg {
    SignerCfg { weights: w.to_vec(), threshold: t }
}

/// key used by rotation targets (the one before it signs the "other key" signatures): just past the
/// largest set's own keys
fn extra_key(n_signers: usize) -> usize {
    5.max(n_signers + 1)
}

impl C01 {
    fn new(thorough: bool) -> C01 {
        let mut sets = vec![
            scfg(&[1], 1),
            scfg(&[MAX], MAX),
            scfg(&[1, 1], 2),
            scfg(&[1, 2], 2),
            scfg(&[1, 2], 3),
            scfg(&[MAX - 1, 1], MAX),
            scfg(&[1 << 127, (1 << 127) - 1], 1 << 127),
            scfg(&[1, 1, 1], 2),
            scfg(&[1, 2, 3], 3),
            scfg(&[1, 2, 3], 6),
            scfg(&[2, 2, 3], 4),
        ];
        if thorough {
            sets.extend([
                scfg(&[1, 1, 1, 1], 2),
                scfg(&[1, 2, 3, 4], 5),
                scfg(&[1, 2, 3, 4], 10),
                scfg(&[4, 3, 2, 1], 6),
                scfg(&[MAX / 4, MAX / 4, MAX / 4, MAX / 4], MAX / 2 + 1),
                scfg(&[1, 1, 1, 1], 4),
            ]);
        }
        let hists = [
            Hist { retention: 0, rotations: 0, dup_attempt: false, advance: 0, pre: 0, init: 0 },
            Hist { retention: 1, rotations: 1, dup_attempt: false, advance: 0, pre: 0, init: 0 },
            Hist { retention: 0, rotations: 1, dup_attempt: false, advance: 0, pre: 0, init: 0 },
            Hist { retention: 2, rotations: 3, dup_attempt: false, advance: 0, pre: 0, init: 0 },
            Hist { retention: 2, rotations: 2, dup_attempt: false, advance: 0, pre: 0, init: 0 },
            Hist { retention: 0, rotations: 0, dup_attempt: false, advance: 20, pre: 0, init: 0 },
            Hist { retention: 1, rotations: 1, dup_attempt: false, advance: 7_000_000, pre: 0, init: 0 },
            Hist { retention: 0, rotations: 0, dup_attempt: false, advance: 0, pre: 1, init: 0 },
            Hist { retention: 1, rotations: 1, dup_attempt: false, advance: 0, pre: 2, init: 0 },
            Hist { retention: 0, rotations: 0, dup_attempt: false, advance: 0, pre: 0, init: 1 },
            Hist { retention: 0, rotations: 0, dup_attempt: false, advance: 0, pre: 0, init: 2 },
            Hist { retention: 1, rotations: 0, dup_attempt: false, advance: 0, pre: 0, init: 2 },
            // the largest retention: every installed set stays valid
            Hist { retention: u64::MAX, rotations: 1, dup_attempt: false, advance: 0, pre: 0, init: 0 },
            Hist { retention: u64::MAX, rotations: 3, dup_attempt: false, advance: 20, pre: 0, init: 2 },
        ];
        let mut cfgs = vec![];
        for s in &sets {
            for (hi, h) in hists.iter().enumerate() {
                // the full status alphabet on the fresh gateway; a reduced one on the histories
                cfgs.push((s.clone(), *h, hi == 0 || s.weights.len() <= 3 || thorough));
            }
        }
        cfgs.push((scfg(&[1], 1), Hist { retention: 0, rotations: 0, dup_attempt: true, advance: 0, pre: 0, init: 0 }, true));
        // sets well beyond the small scope (33 and 65 signers; thorough also 100): no product over the
        // status alphabet here but every single-position deviation from the all-valid proof, and
        // prefixes / suffixes of signers around the threshold
        let mut large = vec![scfg(&[1; 33], 17), scfg(&[1; 33], 33), scfg(&[1; 65], 33)];
        if thorough {
            large.push(scfg(&[3; 100], 200));
        }
        for s in large {
            cfgs.push((s.clone(), hists[0], true));
            cfgs.push((s, hists[1], true));
        }
        C01 { cfgs, thorough }
    }

    fn messages(&self, ctx: &Ctx, kind: u8) -> Vec<Msg> {
        let m = |id: &str, ph: u8| Msg {
            chain: "src".into(),
            id: id.into(),
            src: "sender".into(),
            dest: 0,
            payload_hash: [ph; 32],
        };
        let _ = ctx;
        match kind {
            0 => vec![m("m1", 1)],
            1 => vec![m("m1", 1), m("m2", 2)],
            // in-batch duplicate id with different content
            _ => vec![m("m1", 1), m("m1", 3)],
        }
    }

    fn msg_vals(&self, ctx: &Ctx, msgs: &[Msg]) -> Vec<ScVal> {
        msgs.iter().map(|m| msg_scval(m, &ctx.w.sc_addr(&ctx.dest))).collect()
    }
}

fn flip(sig: &[u8; 64], at: usize) -> [u8; 64] {
    let mut s = *sig;
    s[at] ^= 0x01;
    s
}

impl Scenario for C01 {
    type Ctx = Ctx;
    type M = u8;
    type A = Act;

    fn id(&self) -> &'static str {
        "C01"
    }
    fn n_configs(&self) -> usize {
        self.cfgs.len()
    }
    fn config_label(&self, c: usize) -> String {
        let (s, h, full) = &self.cfgs[c];
        format!(
            "weights {:?} threshold {} retention {} rotations-after {} ledgers-after {} m1-known-before {} initial-list-variant {} full-alphabet {}",
            s.weights, s.threshold, h.retention, h.rotations, h.advance, h.pre, h.init, full
        )
    }
    fn world<'a>(&self, ctx: &'a Ctx) -> &'a World {
        &ctx.w
    }

    fn build(&self, c: usize) -> (Ctx, u8) {
        let (s, h, full) = &self.cfgs[c];
        let w = World::new();
        let env = &w.env;
        let owner = env.register(Principal, ());
        let operator = env.register(Principal, ());
        let dest = env.register(Principal, ());
        let extra = extra_key(s.weights.len());
        let keys = Keys::new(extra + 1);
        let set = SetSpec {
            signers: s.weights.iter().enumerate().map(|(i, w)| (i, *w)).collect(),
            threshold: s.threshold,
            nonce: 7,
        };
        let other = SetSpec { signers: vec![(extra, 1)], threshold: 1, nonce: 90 };
        let initial: Vec<RawSet> = match h.init {
            1 => vec![other.raw(&keys), set.raw(&keys)],
            2 => vec![set.raw(&keys), other.raw(&keys)],
            _ => vec![set.raw(&keys)],
        };
        let gw = register_gateway(&w, None, &owner, &operator, &DOMAIN, 0, h.retention, &initial);
        if h.pre > 0 {
            let m1 = msg_scval(
                &Msg { chain: "src".into(), id: "m1".into(), src: "sender".into(), dest: 0, payload_hash: [1; 32] },
                &w.sc_addr(&dest),
            );
            assert!(approve(&w, &gw, &keys, &set, &DOMAIN, &[m1]).ok);
            if h.pre == 2 {
                let c = w.call(
                    &gw,
                    "validate_message",
                    &[dest.to_val(), to_val(env, &sstr("src")), to_val(env, &sstr("m1")), to_val(env, &sstr("sender")), to_val(env, &sbytes(&[1; 32]))],
                    Auth::By(&[dest.clone()]),
                );
                assert!(c.ok);
            }
        }
        // rotations through the real entry point, each authorised by the then-latest set
        let mut latest = if h.init == 2 { other.clone() } else { set.clone() };
        for r in 0..h.rotations {
            let next = SetSpec { signers: vec![(extra, 1)], threshold: 1, nonce: 100 + r as u8 };
            let raw = next.raw(&keys);
            let proof = honest_proof(&keys, &latest, &DOMAIN, &raw.rotation_data_hash());
            let call = w.call(
                &gw,
                "rotate_signers",
                &[to_val(env, &raw.scval()), to_val(env, &proof), w.v(false)],
                Auth::Nobody,
            );
            assert!(call.ok, "setup rotation failed: {}", call.err);
            latest = next;
        }
        if h.advance > 0 {
            w.set_seq(w.seq() + h.advance);
            w.set_time(w.now() + 5 * h.advance as u64);
        }
        let retained = (h.rotations as u64 + if h.init == 2 { 1 } else { 0 }) <= h.retention;
        let mut set = set;
        let mut skip = false;
        if h.dup_attempt {
            let dup = SetSpec { signers: vec![(1, 1), (1, 1), (2, 1)], threshold: 2, nonce: 55 };
            let raw = dup.raw(&keys);
            let proof = honest_proof(&keys, &latest, &DOMAIN, &raw.rotation_data_hash());
            let call = w.call(
                &gw,
                "rotate_signers",
                &[to_val(env, &raw.scval()), to_val(env, &proof), w.v(false)],
                Auth::Nobody,
            );
            if call.ok {
                set = dup;
            } else {
                skip = true;
            }
        }
        (Ctx { w, gw, keys, set, dest, retained, full: *full, skip, pre: h.pre }, 0)
    }

    fn actions(&self, ctx: &Ctx, _m: &u8) -> Vec<Act> {
        if ctx.skip {
            return vec![];
        }
        let n = ctx.set.signers.len();
        let alphabet: &[St] = if ctx.full { &ALL_ST } else { &SMALL_ST };
        let mut v = vec![];
        if n > 4 {
            let need: usize = {
                // signers (in list order) needed to reach the threshold
                let mut acc: u128 = 0;
                let mut k: usize = 0;
                for (_, wt) in &ctx.set.signers {
                    if acc >= ctx.set.threshold { break; }
                    acc = acc.saturating_add(*wt);
                    k += 1;
                }
                k
            };
            for approve in [true, false] {
                v.push(Act::Vector { st: vec![St::Valid; n], approve });
                v.push(Act::Vector { st: vec![St::Unsigned; n], approve });
                for i in 0..n {
                    for s in ALL_ST {
                        if s == St::Valid { continue; }
                        let mut st = vec![St::Valid; n];
                        st[i] = s;
                        v.push(Act::Vector { st, approve });
                    }
                }
                for k in [need.saturating_sub(1), need, need + 1] {
                    if k > n { continue; }
                    let mut pre = vec![St::Unsigned; n];
                    let mut suf = vec![St::Unsigned; n];
                    for i in 0..k { pre[i] = St::Valid; suf[n - 1 - i] = St::Valid; }
                    v.push(Act::Vector { st: pre, approve });
                    v.push(Act::Vector { st: suf, approve });
                }
            }
            for t in TAMPERS {
                for over_tampered in [false, true] {
                    v.push(Act::Tampered { t, over_tampered, approve: true, st: vec![] });
                }
            }
            for kind in 0..3u8 {
                v.push(Act::Batch { kind, dev: BatchDev::None });
            }
            return v;
        }
        // every vector of per-signer statuses
        let total = alphabet.len().pow(n as u32);
        for approve in [true, false] {
            for code in 0..total {
                let mut c = code;
                let mut st = vec![];
                for _ in 0..n {
                    st.push(alphabet[c % alphabet.len()]);
                    c /= alphabet.len();
                }
                v.push(Act::Vector { st, approve });
            }
        }
        for t in TAMPERS {
            for over_tampered in [false, true] {
                for approve in [true, false] {
                    if !ctx.full && !approve {
                        continue;
                    }
                    v.push(Act::Tampered { t, over_tampered, approve, st: vec![] });
                    // thorough: the full product with per-entry signature status for small sets
                    if self.thorough && n <= 2 && approve {
                        let len = match t { Tamper::DropFirst | Tamper::DropLast => n - 1, Tamper::AddSigner | Tamper::DupFirst => n + 1, _ => n };
                        for code in 0..3usize.pow(len as u32) {
                            let mut c = code;
                            let mut st = vec![];
                            for _ in 0..len { st.push((c % 3) as u8); c /= 3; }
                            if st.iter().all(|x| *x == 1) { continue; }
                            v.push(Act::Tampered { t, over_tampered, approve, st });
                        }
                    }
                }
            }
        }
        for kind in 0..3u8 {
            for dev in [
                BatchDev::None,
                BatchDev::OtherChain,
                BatchDev::OtherId,
                BatchDev::OtherSource,
                BatchDev::OtherDest,
                BatchDev::OtherPayloadHash,
                BatchDev::ExtraMessage,
                BatchDev::MissingMessage,
                BatchDev::Reordered,
            ] {
                if !ctx.full && dev != BatchDev::None && kind != 1 {
                    continue;
                }
                v.push(Act::Batch { kind, dev });
            }
        }
        let _ = self.thorough;
        v
    }

    fn step(&self, ctx: &Ctx, _m: &mut u8, a: &Act, out: &mut StepOut) {
        let w = &ctx.w;
        let env = &w.env;
        let keys = &ctx.keys;
        let raw = ctx.set.raw(keys);
        let set_hash = raw.hash();
        let h0 = w.state_hash();

        // what is submitted
        let (declared, sigs, msgs, approve, must_accept, must_reject): (
            RawSet,
            Vec<Option<[u8; 64]>>,
            Vec<Msg>,
            bool,
            bool,
            bool,
        );
        match a {
            Act::Vector { st, approve: ap } => {
                out.kind = if *ap { "vector-approve" } else { "vector-validate" };
                let ms = self.messages(ctx, 0);
                let dh = approve_data_hash(&self.msg_vals(ctx, &ms));
                let good = digest(&DOMAIN, &set_hash, &dh);
                let mut w_valid: u128 = 0;
                let mut any_invalid = false;
                let mut s = vec![];
                let mut counted: Vec<usize> = vec![];
                for (i, (kix, wt)) in ctx.set.signers.iter().enumerate() {
                    let sig = match st[i] {
                        St::Unsigned => None,
                        St::Valid => {
                            // weight of *members*: a key listed twice counts once
                            if !counted.contains(kix) {
                                counted.push(*kix);
                                w_valid = w_valid.saturating_add(*wt);
                            }
                            Some(sign(keys, *kix, &good))
                        }
                        St::OtherDomain => Some(sign(keys, *kix, &digest(&[0xd1; 32], &set_hash, &dh))),
                        St::OtherCommand => {
                            // same payload under the other command tag
                            let other = keccak(&xdr(&svec(vec![
                                senum("RotateSigners", vec![]),
                                svec(self.msg_vals(ctx, &ms)),
                            ])));
                            Some(sign(keys, *kix, &digest(&DOMAIN, &set_hash, &other)))
                        }
                        St::OtherBatch => {
                            let other = approve_data_hash(&self.msg_vals(ctx, &self.messages(ctx, 1)));
                            Some(sign(keys, *kix, &digest(&DOMAIN, &set_hash, &other)))
                        }
                        St::OtherSetHash => {
                            let mut other = raw.clone();
                            other.nonce = [8; 32];
                            Some(sign(keys, *kix, &digest(&DOMAIN, &other.hash(), &dh)))
                        }
                        St::OtherKey => Some(sign(keys, extra_key(ctx.set.signers.len()) - 1, &good)),
                        St::FlipR => Some(flip(&sign(keys, *kix, &good), 3)),
                        St::FlipS => Some(flip(&sign(keys, *kix, &good), 40)),
                    };
                    if let Some(sg) = &sig {
                        if st[i] != St::Valid {
                            any_invalid = true;
                            // the harness confirms its "invalid" variants really are invalid
                            assert!(!verify_ok(&keys.pk[*kix], &good, sg));
                        }
                    }
                    s.push(sig);
                }
                declared = raw.clone();
                sigs = s;
                msgs = ms;
                approve = *ap;
                let enough = w_valid >= ctx.set.threshold;
                must_reject = !ctx.retained || !enough;
                must_accept = ctx.retained && enough && !any_invalid;
            }
            Act::Tampered { t, over_tampered, approve: ap, st } => {
                out.kind = "tampered-set";
                let mut d = raw.clone();
                match t {
                    Tamper::DropFirst => {
                        d.signers.remove(0);
                    }
                    Tamper::DropLast => {
                        d.signers.pop();
                    }
                    Tamper::AddSigner => d.signers.push((keys.pk[extra_key(ctx.set.signers.len())], 1)),
                    Tamper::DupFirst => {
                        let f = d.signers[0];
                        d.signers.insert(0, f);
                    }
                    Tamper::SwapFirstTwo => {
                        if d.signers.len() >= 2 {
                            d.signers.swap(0, 1);
                        } else {
                            d.signers[0].0[31] ^= 1;
                        }
                    }
                    Tamper::WeightPlus => d.signers[0].1 = d.signers[0].1.wrapping_add(1),
                    Tamper::WeightMinus => d.signers[0].1 = d.signers[0].1.wrapping_sub(1),
                    Tamper::ThresholdPlus => d.threshold = d.threshold.wrapping_add(1),
                    Tamper::ThresholdMinus => d.threshold = d.threshold.wrapping_sub(1),
                    Tamper::OtherNonce => d.nonce = [9; 32],
                }
                let ms = self.messages(ctx, 0);
                let dh = approve_data_hash(&self.msg_vals(ctx, &ms));
                let dig = digest(&DOMAIN, &if *over_tampered { d.hash() } else { set_hash }, &dh);
                // every declared entry whose key the harness holds signs
                let s: Vec<Option<[u8; 64]>> = d
                    .signers
                    .iter()
                    .enumerate()
                    .map(|(i, (pk, _))| {
                        let mode = st.get(i).cloned().unwrap_or(1);
                        if mode == 0 {
                            return None;
                        }
                        keys.pk.iter().position(|k| k == pk).map(|ix| {
                            let sg = sign(keys, ix, &dig);
                            if mode == 2 { flip(&sg, 40) } else { sg }
                        })
                    })
                    .collect();
                declared = d;
                sigs = s;
                msgs = ms;
                approve = *ap;
                must_reject = true; // the declared set is not an installed set
                must_accept = false;
            }
            Act::Batch { kind, dev } => {
                out.kind = "batch";
                let signed = self.messages(ctx, *kind);
                let mut sub = signed.clone();
                match dev {
                    BatchDev::None => {}
                    BatchDev::OtherChain => sub[0].chain = "srd".into(),
                    BatchDev::OtherId => sub[0].id = "m9".into(),
                    BatchDev::OtherSource => sub[0].src = "sendes".into(),
                    BatchDev::OtherDest => sub[0].dest = 1,
                    BatchDev::OtherPayloadHash => sub[0].payload_hash = [0xee; 32],
                    BatchDev::ExtraMessage => sub.push(Msg {
                        chain: "src".into(),
                        id: "m7".into(),
                        src: "sender".into(),
                        dest: 0,
                        payload_hash: [7; 32],
                    }),
                    BatchDev::MissingMessage => {
                        sub.pop();
                    }
                    BatchDev::Reordered => sub.reverse(),
                }
                let signed_vals = self.msg_vals(ctx, &signed);
                let dh = approve_data_hash(&signed_vals);
                let dig = digest(&DOMAIN, &set_hash, &dh);
                declared = raw.clone();
                sigs = ctx.set.signers.iter().map(|(k, _)| Some(sign(keys, *k, &dig))).collect();
                let same = {
                    let a: Vec<ScVal> = sub
                        .iter()
                        .map(|m| msg_scval(m, &w.sc_addr(if m.dest == 0 { &ctx.dest } else { &ctx.gw })))
                        .collect();
                    a == signed_vals
                };
                msgs = sub;
                approve = true;
                // an empty submitted batch is outside the statement
                if msgs.is_empty() {
                    must_reject = false;
                    must_accept = false;
                } else {
                    must_reject = !ctx.retained || !same;
                    must_accept = ctx.retained && same;
                }
            }
        }

        let msg_vals: Vec<ScVal> = msgs
            .iter()
            .map(|m| msg_scval(m, &w.sc_addr(if m.dest == 0 { &ctx.dest } else { &ctx.gw })))
            .collect();
        let proof = proof_scval(&declared, &sigs);
        let call = if approve {
            w.call(
                &ctx.gw,
                "approve_messages",
                &[to_val(env, &svec(msg_vals.clone())), to_val(env, &proof)],
                Auth::Nobody,
            )
        } else {
            let dh = approve_data_hash(&msg_vals);
            w.call(
                &ctx.gw,
                "validate_proof",
                &[to_val(env, &sbytes(&dh)), to_val(env, &proof)],
                Auth::Nobody,
            )
        };
        out.accepted = call.ok;
        if must_reject {
            out.expect(!call.ok, "soundness.accepted-insufficient-proof", || {
                format!("accepted {:?} (retained={})", a, ctx.retained)
            });
        }
        if must_accept {
            out.expect(call.ok, "completeness.rejected-honest-proof", || {
                format!("rejected {:?}: {}", a, call.err)
            });
        }
        if !call.ok {
            out.expect(h0 == w.state_hash(), "rejected-but-changed-state", || format!("{:?}", a));
            return;
        }
        if approve {
            // every distinct (chain,id) of the batch is approved with its first content,
            // exactly one event per such message
            let mut seen: Vec<(String, String)> = vec![];
            let mut expected = vec![];
            for (i, m) in msgs.iter().enumerate() {
                let k = (m.chain.clone(), m.id.clone());
                if seen.contains(&k) {
                    continue;
                }
                seen.push(k);
                if ctx.pre > 0 && m.id == "m1" {
                    // known before the submission: no new approval, no event; an approved one
                    // keeps its recorded content, an executed one stays executed
                    let q = w.query(&ctx.gw, "is_message_executed", &[to_val(env, &sstr(&m.chain)), to_val(env, &sstr(&m.id))]);
                    out.expect(q == Some(ScVal::Bool(ctx.pre == 2)), "accepted.known-message-status-changed", || format!("{:?}: executed = {:?}", m, q));
                    continue;
                }
                expected.push(EvPat {
                    contract: w.sc_addr(&ctx.gw),
                    name: "message_approved",
                    must: vec![msg_vals[i].clone()],
                });
                let dest = if m.dest == 0 { &ctx.dest } else { &ctx.gw };
                let q = w.query(
                    &ctx.gw,
                    "is_message_approved",
                    &[
                        to_val(env, &sstr(&m.chain)),
                        to_val(env, &sstr(&m.id)),
                        to_val(env, &sstr(&m.src)),
                        dest.to_val(),
                        to_val(env, &sbytes(&m.payload_hash)),
                    ],
                );
                out.expect(q == Some(ScVal::Bool(true)), "accepted-but-not-approved", || {
                    format!("{:?}: is_message_approved = {:?}", m, q)
                });
            }
            let r = match_events(&call.events, &expected, &["message_approved"]);
            out.expect(r.is_ok(), "accepted.events", || r.unwrap_err());
        } else {
            out.expect(h0 == w.state_hash(), "validate_proof-changed-state", || format!("{:?}", a));
        }
    }

    fn sweep_targets(&self, ctx: &Ctx) -> (Vec<(Address, &'static str, &'static [&'static str])>, Vec<Address>) {
        (vec![(ctx.gw.clone(), "/repo/contracts/axelar-gateway/src", &axmc::inventory::GATEWAY_KNOWN[..])], vec![ctx.gw.clone()])
    }

    fn must_succeed_kinds(&self) -> Vec<&'static str> {
        vec!["vector-approve", "vector-validate", "batch"]
    }
}

fn main() {
    main_for(|tier| {
        let s = C01::new(tier == "thorough");
        let mut o = Opts::new(tier, 1);
        o.rule = "one submission from each base state; base states = 11 (quick) / 17 (thorough, adds 4-signer sets) signer configurations, plus 33-signer sets (thresholds 17 and 33) and a 65-signer set (thorough also 100 signers) with every single-position deviation from the all-valid proof and signer prefixes / suffixes around the threshold, with boundary weights/thresholds x 14 histories (constructed with one or two initial sets in either order, retention 0-2 and u64::MAX, 0-3 real rotations after the set under test, 0 / 20 / 7,000,000 ledgers passing, message m1 already approved / already executed before the submission). Per base state: EVERY vector of per-signer status from {unsigned, valid, other domain separator, other command kind, other batch, other signer-set hash, other key, bit-flipped R, bit-flipped s} (9^N on the fresh gateway and, for N <= 3 or in the thorough tier, on every history; 3^N otherwise) through approve_messages and validate_proof; 10 tamperings of the declared set x {signatures over the true set's digest, over the tampered set's digest}; batches of 1, 2 and 2-with-duplicate-id, each also submitted with one field / one message changed relative to the signed batch. Oracle: independent predicate (set installed and retained, valid weight >= threshold) with independently recomputed digests".into();
        (s, o)
    });
}
