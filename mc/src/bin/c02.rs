//! C02: each message is approved once and executed once, only by its destination.
//! Finite message-status graph explored to fixpoint (DESIGN.md section 4, C02).

use axmc::aux::{Caller, Principal};
use axmc::explore::*;
use axmc::gw::*;
use axmc::refs::*;
use axmc::world::*;
use serde::{Deserialize, Serialize};
use soroban_sdk::xdr::ScVal;
use soroban_sdk::Address;

const H1: [u8; 32] = [0x11; 32];
const H2: [u8; 32] = [0x22; 32];

struct Ctx {
    w: World,
    gw: Address,
    keys: Keys,
    set: SetSpec,
    dests: Vec<Address>,
}

/// content of an approval for a key: (source address, destination index, payload hash)
#[derive(Clone, Copy, Debug, PartialEq, Eq, Hash, Serialize, Deserialize)]
struct Content {
    src: u8,
    dest: u8,
    hash: u8,
}

#[derive(Clone, Debug, PartialEq, Eq, Hash)]
enum Status {
    NotApproved,
    Approved(Content),
    Executed,
}

#[derive(Clone, Hash)]
struct Model {
    status: Vec<Status>,
    advances: u8,
    rotations: u8,
}

#[derive(Clone, Debug, Serialize, Deserialize)]
enum Act {
    Approve(Vec<(usize, Content)>),
    Validate {
        key: usize,
        caller: u8,
        src: u8,
        hash: u8,
        auth: bool,
    },
    /// the first destination tries to consume a message with an empty id (or an empty chain) that
    /// was never approved
    ValidateEmpty { empty_chain: bool },
    Advance(u32),
    /// the signer set is rotated (approvals and executed marks must be unaffected)
    Rotate,
}

struct C02 {
    keys: Vec<(&'static str, &'static str)>,
    max_adv: u8,
    /// size of the one-off large batch tried (on a snapshot) from every state without time passing
    bulk: usize,
}

/// tail shared by the ids of the alphabet's keys: one occurrence of each customary separator and
/// more than 32 bytes in all, so that every way of keying the status by a lossy or ambiguous
/// combination of (chain, id) has a colliding sibling among `siblings()`
const TAIL: &str = "_d-e:f/g.h|i j,k#l-0123456789abcdef0123";
const K0: (&str, &str) = ("ab", "c_d-e:f/g.h|i j,k#l-0123456789abcdef0123");
const K1: (&str, &str) = ("a", "bc_d-e:f/g.h|i j,k#l-0123456789abcdef0123");
const K2: (&str, &str) = ("aB", "c_d-e:f/g.h|i j,k#l-0123456789abcdef0123 ");

/// keys that are never approved but would share key 0's status slot under a keying scheme that
/// joins chain and id with a separator, truncates the id, or looks at a prefix only
fn siblings() -> Vec<(String, String)> {
    let (chain, id) = K0;
    let mut v = vec![];
    for (pos, ch) in id.char_indices() {
        if "_-:/.| ,#".contains(ch) {
            v.push((format!("{}{}{}", chain, ch, &id[..pos]), id[pos + 1..].to_string()));
        }
    }
    // same first 32 bytes / same length and last byte differs / one byte longer
    v.push((chain.to_string(), id[..32].to_string()));
    v.push((chain.to_string(), format!("{}4", &id[..id.len() - 1])));
    v.push((chain.to_string(), format!("{}x", id)));
    debug_assert!(id.ends_with(TAIL));
    v
}

const BULK_CHAINS: [&str; 2] = ["bulk", "bulk-2"];

const CONTENTS: [Content; 6] = [
    Content { src: 0, dest: 0, hash: 0 },
    Content { src: 0, dest: 1, hash: 0 },
    Content { src: 0, dest: 0, hash: 1 },
    Content { src: 1, dest: 0, hash: 0 },
    // destination 2 is a contract, which consumes by calling the gateway itself
    Content { src: 0, dest: 2, hash: 0 },
    // destination 3 is the account-type address made of the same 32 bytes as destination 0's
    // contract id: nobody in the alphabet can consume an approval naming it
    Content { src: 0, dest: 3, hash: 0 },
];

/// the two source addresses differ only in letter case
fn src_str(i: u8) -> &'static str {
    if i == 0 { "0xAbCdEf" } else { "0xabcdef" }
}
fn hash_of(i: u8) -> [u8; 32] {
    if i == 0 { H1 } else { H2 }
}

impl C02 {
    fn msg(&self, ctx: &Ctx, key: usize, c: Content) -> ScVal {
        let (chain, id) = self.keys[key];
        msg_scval(
            &Msg {
                chain: chain.into(),
                id: id.into(),
                src: src_str(c.src).into(),
                dest: c.dest as usize,
                payload_hash: hash_of(c.hash),
            },
            &ctx.w.sc_addr(&ctx.dests[c.dest as usize]),
        )
    }
}

impl Scenario for C02 {
    type Ctx = Ctx;
    type M = Model;
    type A = Act;

    fn id(&self) -> &'static str {
        "C02"
    }
    fn n_configs(&self) -> usize {
        1
    }
    fn config_label(&self, _: usize) -> String {
        format!("gateway, 1 signer set, keys {:?}", self.keys)
    }
    fn world<'a>(&self, ctx: &'a Ctx) -> &'a World {
        &ctx.w
    }

    fn build(&self, _cfg: usize) -> (Ctx, Model) {
        let w = World::new();
        let env = &w.env;
        let owner = env.register(Principal, ());
        let operator = env.register(Principal, ());
        let a = env.register(Principal, ());
        let b = env.register(Principal, ());
        let k = env.register(Caller, ());
        let keys = Keys::new(2);
        let set = SetSpec { signers: vec![(0, 1)], threshold: 1, nonce: 1 };
        let gw = register_gateway(&w, None, &owner, &operator, &DOMAIN, 0, 0, &[set.raw(&keys)]);
        (
            {
                let raw = match w.sc_addr(&a) {
                    soroban_sdk::xdr::ScAddress::Contract(h) => h.0,
                    _ => unreachable!(),
                };
                let twin = axmc::its::addr_from_sc(
                    &w,
                    &soroban_sdk::xdr::ScAddress::Account(soroban_sdk::xdr::AccountId(soroban_sdk::xdr::PublicKey::PublicKeyTypeEd25519(soroban_sdk::xdr::Uint256(raw)))),
                );
                Ctx { w, gw, keys, set, dests: vec![a, b, k, twin] }
            },
            Model { status: vec![Status::NotApproved; self.keys.len()], advances: 0, rotations: 0 },
        )
    }

    fn actions(&self, _ctx: &Ctx, m: &Model) -> Vec<Act> {
        let mut v = vec![];
        for k in 0..self.keys.len() {
            for c in CONTENTS {
                v.push(Act::Approve(vec![(k, c)]));
            }
        }
        // batches: same key / different content; identical twins; two keys
        v.push(Act::Approve(vec![(0, CONTENTS[0]), (0, CONTENTS[2])]));
        v.push(Act::Approve(vec![(0, CONTENTS[1]), (0, CONTENTS[1])]));
        v.push(Act::Approve(vec![(1, CONTENTS[0]), (0, CONTENTS[0])]));
        v.push(Act::Approve(vec![(0, CONTENTS[3]), (1, CONTENTS[1]), (0, CONTENTS[0])]));
        for k in 0..self.keys.len() {
            for caller in 0..3u8 {
                for src in 0..2u8 {
                    for hash in 0..2u8 {
                        v.push(Act::Validate { key: k, caller, src, hash, auth: true });
                    }
                }
                v.push(Act::Validate { key: k, caller, src: 0, hash: 0, auth: false });
            }
        }
        v.push(Act::ValidateEmpty { empty_chain: false });
        v.push(Act::ValidateEmpty { empty_chain: true });
        if m.rotations < 1 {
            v.push(Act::Rotate);
        }
        if m.advances < self.max_adv {
            v.push(Act::Advance(20));
            // ~405 days: longer than the maximum entry TTL, so every temporary entry is gone by then, while
            // the world's keeper (World::set_seq) keeps instance / persistent entries alive
            v.push(Act::Advance(7_000_000));
        }
        v
    }

    fn step(&self, ctx: &Ctx, m: &mut Model, a: &Act, out: &mut StepOut) {
        let w = &ctx.w;
        let env = &w.env;
        match a {
            Act::Approve(batch) => {
                out.kind = "approve";
                let msgs: Vec<ScVal> = batch.iter().map(|(k, c)| self.msg(ctx, *k, *c)).collect();
                let set = if m.rotations == 0 { ctx.set.clone() } else { SetSpec { signers: vec![(1, 1)], threshold: 1, nonce: 2 } };
                let call = approve(w, &ctx.gw, &ctx.keys, &set, &DOMAIN, &msgs);
                out.accepted = call.ok;
                out.expect(call.ok, "approve.honest-proof-rejected", || {
                    format!("honest approval rejected: {}", call.err)
                });
                if !call.ok {
                    return;
                }
                // model: first occurrence of a not-approved key wins, everything else is skipped
                let mut expected = vec![];
                for (i, (k, c)) in batch.iter().enumerate() {
                    if m.status[*k] == Status::NotApproved {
                        m.status[*k] = Status::Approved(*c);
                        expected.push(EvPat {
                            contract: w.sc_addr(&ctx.gw),
                            name: "message_approved",
                            must: vec![msgs[i].clone()],
                        });
                    }
                }
                let r = match_events(&call.events, &expected, &["message_approved", "message_executed"]);
                out.expect(r.is_ok(), "approve.events", || r.unwrap_err());
            }
            Act::Validate { key, caller, src, hash, auth } => {
                out.kind = if *auth { "validate" } else { "validate-unauthorised" };
                let (chain, id) = self.keys[*key];
                let who = ctx.dests[*caller as usize].clone();
                let args = [
                    who.to_val(),
                    to_val(env, &sstr(chain)),
                    to_val(env, &sstr(id)),
                    to_val(env, &sstr(src_str(*src))),
                    to_val(env, &sbytes(&hash_of(*hash))),
                ];
                let h0 = w.state_hash();
                let signers = [who.clone()];
                let call = if *caller == 2 && *auth {
                    // the destination contract makes the call itself (invoker authorisation)
                    let mut rargs = args.to_vec();
                    rargs[0] = soroban_sdk::Symbol::new(env, "__self__").to_val();
                    let argv: soroban_sdk::Vec<soroban_sdk::Val> = soroban_sdk::Vec::from_slice(env, &rargs);
                    w.call(
                        &who,
                        "relay",
                        &[ctx.gw.to_val(), soroban_sdk::Symbol::new(env, "validate_message").to_val(), argv.to_val()],
                        Auth::Nobody,
                    )
                } else {
                    w.call(
                        &ctx.gw,
                        "validate_message",
                        &args,
                        if *auth { Auth::By(&signers) } else { Auth::Nobody },
                    )
                };
                let attempted = Content { src: *src, dest: *caller, hash: *hash };
                let should_consume = *auth && m.status[*key] == Status::Approved(attempted);
                let consumed = call.ok && call.ret_bool() == Some(true);
                out.accepted = consumed;
                if !*auth {
                    out.expect(!call.ok, "validate.unauthorised-accepted", || {
                        format!("validate_message without the caller's authorisation succeeded: {:?}", call.ret)
                    });
                } else {
                    out.expect(call.ok, "validate.call-failed", || {
                        format!("authorised validate_message failed: {}", call.err)
                    });
                }
                out.expect(consumed == should_consume, "validate.consumption", || {
                    format!(
                        "consumed={} but model says {} (status {:?}, attempted {:?})",
                        consumed, should_consume, m.status[*key], attempted
                    )
                });
                if consumed {
                    let msg = self.msg(ctx, *key, attempted);
                    let r = match_events(
                        &call.events,
                        &[EvPat { contract: w.sc_addr(&ctx.gw), name: "message_executed", must: vec![msg] }],
                        &["message_approved", "message_executed"],
                    );
                    out.expect(r.is_ok(), "validate.events", || r.unwrap_err());
                    if should_consume {
                        m.status[*key] = Status::Executed;
                    }
                } else {
                    out.expect(h0 == w.state_hash(), "validate.refused-but-changed-state", || {
                        "a refused consumption changed the ledger state".into()
                    });
                    out.expect(call.events.is_empty(), "validate.refused-but-event", || {
                        format!("{:?}", call.events)
                    });
                }
            }
            Act::ValidateEmpty { empty_chain } => {
                out.kind = "validate-never-approved";
                let who = ctx.dests[0].clone();
                let (chain, id) = if *empty_chain { ("", "x") } else { ("ab", "") };
                let h0 = w.state_hash();
                let call = w.call(
                    &ctx.gw,
                    "validate_message",
                    &[who.to_val(), to_val(env, &sstr(chain)), to_val(env, &sstr(id)), to_val(env, &sstr(src_str(0))), to_val(env, &sbytes(&hash_of(0)))],
                    Auth::By(&[who.clone()]),
                );
                let consumed = call.ok && call.ret_bool() == Some(true);
                out.accepted = false;
                out.expect(!consumed, "validate.consumption", || format!("a never-approved message with {} was consumed", if *empty_chain { "an empty chain name" } else { "an empty id" }));
                out.expect(h0 == w.state_hash(), "validate.refused-but-changed-state", || "a refused consumption changed the ledger state".into());
            }
            Act::Rotate => {
                out.kind = "rotate";
                let next = SetSpec { signers: vec![(1, 1)], threshold: 1, nonce: 2 };
                let raw = next.raw(&ctx.keys);
                let proof = honest_proof(&ctx.keys, &ctx.set, &DOMAIN, &raw.rotation_data_hash());
                let call = w.call(&ctx.gw, "rotate_signers", &[to_val(env, &raw.scval()), to_val(env, &proof), w.v(false)], Auth::Nobody);
                out.accepted = call.ok;
                out.expect(call.ok, "rotate.rejected", || call.err.clone());
                if call.ok {
                    m.rotations += 1;
                }
            }
            Act::Advance(n) => {
                out.kind = "advance";
                out.accepted = true;
                w.set_seq(w.seq() + n);
                w.set_time(w.now() + 5 * *n as u64);
                m.advances += 1;
            }
        }
    }

    fn probe(&self, ctx: &Ctx, m: &Model, out: &mut StepOut) {
        let w = &ctx.w;
        let env = &w.env;
        for (k, (chain, id)) in self.keys.iter().enumerate() {
            let ex = w.query(&ctx.gw, "is_message_executed", &[to_val(env, &sstr(chain)), to_val(env, &sstr(id))]);
            let want = m.status[k] == Status::Executed;
            out.expect(ex == Some(ScVal::Bool(want)), "probe.is_message_executed", || {
                format!("key {:?}: got {:?}, model {:?}", (chain, id), ex, m.status[k])
            });
            for c in CONTENTS {
                let got = w.query(
                    &ctx.gw,
                    "is_message_approved",
                    &[
                        to_val(env, &sstr(chain)),
                        to_val(env, &sstr(id)),
                        to_val(env, &sstr(src_str(c.src))),
                        ctx.dests[c.dest as usize].to_val(),
                        to_val(env, &sbytes(&hash_of(c.hash))),
                    ],
                );
                let want = m.status[k] == Status::Approved(c);
                out.expect(got == Some(ScVal::Bool(want)), "probe.is_message_approved", || {
                    format!("key {:?} content {:?}: got {:?}, model {:?}", (chain, id), c, got, m.status[k])
                });
            }
        }
        // keys that were never approved have no status, whatever happened to key 0
        for (chain, id) in siblings() {
            let ex = w.query(&ctx.gw, "is_message_executed", &[to_val(env, &sstr(&chain)), to_val(env, &sstr(&id))]);
            out.expect(ex == Some(ScVal::Bool(false)), "probe.sibling-executed", || {
                format!("never-approved key {:?} reports executed = {:?} (key 0 is {:?})", (&chain, &id), ex, m.status[0])
            });
            let c = CONTENTS[0];
            let got = w.query(
                &ctx.gw,
                "is_message_approved",
                &[to_val(env, &sstr(&chain)), to_val(env, &sstr(&id)), to_val(env, &sstr(src_str(c.src))), ctx.dests[0].to_val(), to_val(env, &sbytes(&hash_of(c.hash)))],
            );
            out.expect(got == Some(ScVal::Bool(false)), "probe.sibling-approved", || {
                format!("never-approved key {:?} reports approved = {:?}", (&chain, &id), got)
            });
        }
        // one large batch (tried on a snapshot): every entry is approved and announced, wherever it
        // sits; the alphabet's keys ride along at the front, in the middle and at the end
        if self.bulk > 0 && m.advances == 0 && m.rotations == 0 {
            let snap = w.snap();
            let mut tagged: Vec<(Option<usize>, ScVal)> = (0..self.bulk)
                .map(|i| {
                    (
                        None,
                        msg_scval(
                            // neighbours share their id and differ in the source chain only
                            &Msg { chain: BULK_CHAINS[i % 2].into(), id: format!("b{}", i / 2), src: "s".into(), dest: 0, payload_hash: H1 },
                            &w.sc_addr(&ctx.dests[0]),
                        ),
                    )
                })
                .collect();
            tagged.insert(self.bulk / 2, (Some(1), self.msg(ctx, 1, CONTENTS[0])));
            tagged.insert(0, (Some(0), self.msg(ctx, 0, CONTENTS[0])));
            tagged.push((Some(2), self.msg(ctx, 2, CONTENTS[0])));
            let msgs: Vec<ScVal> = tagged.iter().map(|(_, v)| v.clone()).collect();
            let call = approve(w, &ctx.gw, &ctx.keys, &ctx.set, &DOMAIN, &msgs);
            out.expect(call.ok, "bulk.rejected", || format!("honest batch of {} rejected: {}", msgs.len(), call.err));
            if call.ok {
                let mut expected = vec![];
                for (rider, msg) in tagged.iter() {
                    if rider.map(|k| m.status[k] == Status::NotApproved).unwrap_or(true) {
                        expected.push(EvPat { contract: w.sc_addr(&ctx.gw), name: "message_approved", must: vec![msg.clone()] });
                    }
                }
                let r = match_events(&call.events, &expected, &["message_approved", "message_executed"]);
                out.expect(r.is_ok(), "bulk.events", || truncate(&r.unwrap_err(), 400));
                for i in 0..self.bulk {
                    let got = w.query(
                        &ctx.gw,
                        "is_message_approved",
                        &[to_val(env, &sstr(BULK_CHAINS[i % 2])), to_val(env, &sstr(&format!("b{}", i / 2))), to_val(env, &sstr("s")), ctx.dests[0].to_val(), to_val(env, &sbytes(&H1))],
                    );
                    out.expect(got == Some(ScVal::Bool(true)), "bulk.entry-not-approved", || format!("entry {} of a batch of {}: {:?}", i, msgs.len(), got));
                }
                for k in 0..self.keys.len().min(3) {
                    let (chain, id) = self.keys[k];
                    let c = CONTENTS[0];
                    let got = w.query(
                        &ctx.gw,
                        "is_message_approved",
                        &[to_val(env, &sstr(chain)), to_val(env, &sstr(id)), to_val(env, &sstr(src_str(c.src))), ctx.dests[0].to_val(), to_val(env, &sbytes(&hash_of(c.hash)))],
                    );
                    let want = m.status[k] == Status::NotApproved || m.status[k] == Status::Approved(c);
                    out.expect(got == Some(ScVal::Bool(want)), "bulk.rider", || format!("key {} after the large batch: {:?}, status before {:?}", k, got, m.status[k]));
                }
            }
            w.restore(&snap);
        }
    }

    fn sweep_targets(&self, ctx: &Ctx) -> (Vec<(Address, &'static str, &'static [&'static str])>, Vec<Address>) {
        (vec![(ctx.gw.clone(), "/repo/contracts/axelar-gateway/src", &axmc::inventory::GATEWAY_KNOWN[..])], vec![ctx.gw.clone()])
    }

    fn must_succeed_kinds(&self) -> Vec<&'static str> {
        vec!["approve", "validate"]
    }
}

fn main() {
    axmc::inventory::set_strings(&[K0.0, K0.1]);
    main_for(|tier| {
        let s = if tier == "quick" {
            C02 { keys: vec![K0, K1, K2], max_adv: 1, bulk: 100 }
        } else {
            C02 { keys: vec![K0, K1, K2], max_adv: 2, bulk: 300 }
        };
        let mut o = Opts::new(tier, if tier == "quick" { 12 } else { 16 });
        o.min_depth = 4;
        o.xcheck = tier == "thorough";
        o.rule = "all sequences over {approve single x4 contents per key, 4 batches (same-key/different-content, identical twins, two keys, three entries), a signer rotation, validate_message x {3 callers (two principals, one calling contract; a fourth destination, the account-type address made of the first principal's 32 bytes, can be approved for but never consumes), 2 source addresses differing only in letter case, 2 payload hashes, authorised or not} per key, consumption attempts for never-approved messages with an empty id / empty chain name, advance 20 ledgers (bounded)}; keys 0/1 differ only in where chain ends and id begins, key 2 from key 0 only in letter case and a trailing blank; ids are 40 bytes with every customary separator; 12 never-approved sibling keys (separator shifted into the chain, same 32-byte prefix, same length) must never show a status; from every state without time passing a batch of 100 (quick) / 300 (thorough) fresh messages (neighbours share their id and differ in the source chain only) plus the three keys is approved on a snapshot and every entry checked; explored to fixpoint of the finite status graph; after every new state is_message_approved for all key x content pairs and is_message_executed for all keys are compared with the model".into();
        (s, o)
    });
}
