//! C05: interchain transfers conserve value and announce exactly what was taken.
//! Histories of deployments, canonical registrations, outbound transfers, approved inbound
//! transfers and trusted-chain changes over two token kinds and two users; balances, custody
//! and supply equations after every step; announced payload vs the independent ABI encoder.

use axmc::explore::*;
use axmc::its::*;
use axmc::refs::*;
use axmc::world::*;
use serde::{Deserialize, Serialize};
use soroban_sdk::xdr::ScVal;
use soroban_sdk::Address;

/// exactly 32 bytes: the name fills its ABI word, so that the padding of the chain name is empty
const X: &str = "Ethereum-Sepolia-Testnet-Chain-0";
const _: () = assert!(X.len() == 32);
const Z: &str = "untrusted-chain";
const SALT: [u8; 32] = [0x51; 32];
const UNKNOWN: [u8; 32] = [0x99; 32];
const DEST: &[u8] = b"0xDestinationOnRemote";

// holders: 0 U1, 1 U2, 2 app, 3 ITS, 4 gas service, 5 an account-type (G...) address
// tokens: 0 T1 (service-deployed), 1 T2 (canonical asset), 2 gas token

#[derive(Clone, Hash)]
struct Model {
    advances: u8,
    t1: bool,
    t2: bool,
    /// the service-deployed token T1's address has also been registered as a canonical token
    /// (anybody may do that); transfers through T1's own id must go on burning and minting
    t1_also_canonical: bool,
    trusted: bool,
    /// tokens: 0 T1, 1 T2, 2 gas token, 3 T3 (second service-deployed token), 4 T4 (second canonical)
    bal: [[i128; 6]; 5],
    locked: [i128; 5],
    released: [i128; 5],
    minted: [i128; 5],
    burned: [i128; 5],
    inbound: u32,
    /// (token, recipient, amount, data?) of the last successful inbound delivery
    last_in: Option<(u8, u8, i128, bool)>,
}

#[derive(Clone, Copy, Debug, PartialEq, Eq, Serialize, Deserialize)]
enum Amt {
    Neg,
    Zero,
    One,
    All,
    AllPlus1,
    /// inbound only: announced amount 2^128 + 1 (amount word patched by hand)
    Huge,
}

#[derive(Clone, Debug, Serialize, Deserialize)]
enum Act {
    Deploy,
    Register,
    /// register_canonical_token(address of the service-deployed token T1)
    RegisterDeployedAsCanonical,
    /// an approved hub message asks to deploy a token under the canonical token T2's id: refused, or
    /// the custody locked under that id is stranded
    HubDeployForCanonicalId,
    SetTrusted,
    RemoveTrusted,
    /// token: 0 T1, 1 T2, 2 unknown id; gas: 0 = 1 unit, 1 = more than the sender has, 2 = zero, 3 = negative
    /// gas_tok: which token pays the gas: 2 = the gas token, 1 = T2, 0 = T1 (aliasing with the transferred token)
    /// hub: the destination named is the hub's own chain (trusted at set-up, never removed)
    Out { token: u8, sender: usize, amt: Amt, trusted_dest: bool, data: bool, gas: u8, auth: bool, gas_tok: u8, hub: bool },
    /// recipient: 0 = U2, 1 = app with data, 2 = the token service itself, 3 = an account-type address,
    /// 4 = bytes that are well-formed XDR of a string, not of an address (nobody to credit: refused)
    In { token: u8, recipient: u8, amt: Amt },
    /// the last successful inbound delivery is approved and delivered again, unchanged
    ReplayLastInbound,
    Advance(u32),
}

struct Ctx {
    iw: ItsWorld,
    t1_id: [u8; 32],
    /// the id under which T1's address can also be registered as a canonical token
    t1c_id: [u8; 32],
    t1: Address,
    t2_id: [u8; 32],
    t3_id: [u8; 32],
    t3: Address,
    t4_id: [u8; 32],
    holders: Vec<Address>,
}

struct C05 {
    thorough: bool,
}

impl C05 {
    fn token_addr<'a>(&self, ctx: &'a Ctx, t: usize) -> &'a Address {
        match t { 0 => &ctx.t1, 1 => &ctx.iw.assets[0], 3 => &ctx.t3, 4 => &ctx.iw.assets[1], _ => &ctx.iw.gas_token }
    }
}

impl Scenario for C05 {
    type Ctx = Ctx;
    type M = Model;
    type A = Act;

    fn id(&self) -> &'static str { "C05" }
    fn n_configs(&self) -> usize { 2 }
    fn config_label(&self, c: usize) -> String {
        if c == 0 { "nothing deployed yet (deployment and registration are actions)".into() } else { "T1 deployed (supply 20 to U1) and T2 registered".into() }
    }
    fn world<'a>(&self, ctx: &'a Ctx) -> &'a World { &ctx.iw.w }

    fn build(&self, c: usize) -> (Ctx, Model) {
        let iw = ItsWorld::new("stellar", 2, 2);
        let t1_id = interchain_token_id("stellar", &iw.sc(&iw.users[0]), &SALT);
        let t1 = iw.seat_token(&t1_id);
        let t1c_id = canonical_token_id("stellar", &iw.sc(&t1));
        let t2_id = canonical_token_id("stellar", &iw.sc(&iw.assets[0]));
        // a native seat behind the canonical id as well: only a broken tree deploys a token there
        iw.seat_token(&t2_id);
        assert!(iw.set_trusted(X).ok);
        // the hub's own chain is a trusted destination too (as in the repository's own set-up helper)
        assert!(iw.set_trusted(HUB_CHAIN).ok);
        iw.mint_asset(&iw.assets[0], &iw.users[0], 20);
        iw.mint_asset(&iw.assets[0], &iw.users[1], 5);
        iw.mint_asset(&iw.gas_token, &iw.users[0], 3);
        iw.mint_asset(&iw.gas_token, &iw.users[1], 1);
        // a second token of each kind, present from the start: T3 deployed by U2 (supply 20), T4 registered (U1 holds 20)
        let salt3 = [0x53u8; 32];
        let t3_id = interchain_token_id("stellar", &iw.sc(&iw.users[1]), &salt3);
        let t3 = iw.seat_token(&t3_id);
        {
            let w = &iw.w;
            let env = &w.env;
            let c = w.call(
                &iw.its,
                "deploy_interchain_token",
                &[iw.users[1].to_val(), to_val(env, &sbytes(&salt3)), to_val(env, &metadata_scval(b"Token Three", b"THREE", 7)), w.v(20i128), to_val(env, &ScVal::Void)],
                Auth::Setup,
            );
            assert!(c.ok, "{}", c.err);
            let c = w.call(&iw.its, "register_canonical_token", &[iw.assets[1].to_val()], Auth::Nobody);
            assert!(c.ok);
        }
        let t4_id = canonical_token_id("stellar", &iw.sc(&iw.assets[1]));
        iw.mint_asset(&iw.assets[1], &iw.users[0], 20);
        let account = addr_from_sc(
            &iw.w,
            &soroban_sdk::xdr::ScAddress::Account(soroban_sdk::xdr::AccountId(soroban_sdk::xdr::PublicKey::PublicKeyTypeEd25519(soroban_sdk::xdr::Uint256([7; 32])))),
        );
        let holders = vec![iw.users[0].clone(), iw.users[1].clone(), iw.app.clone(), iw.its.clone(), iw.gas.clone(), account];
        let ctx = Ctx { iw, t1_id, t1c_id, t1, t2_id, t3_id, t3, t4_id, holders };
        let mut m = Model {
            advances: 0,
            t1: false,
            t2: false,
            t1_also_canonical: false,
            trusted: true,
            bal: [[0; 6], [20, 5, 0, 0, 0, 0], [3, 1, 0, 0, 0, 0], [0, 20, 0, 0, 0, 0], [20, 0, 0, 0, 0, 0]],
            locked: [0; 5],
            released: [0; 5],
            minted: [0; 5],
            burned: [0; 5],
            inbound: 0,
            last_in: None,
        };
        if c == 1 {
            let mut o = StepOut::default();
            self.step(&ctx, &mut m, &Act::Deploy, &mut o);
            self.step(&ctx, &mut m, &Act::Register, &mut o);
            assert!(o.mismatches.is_empty() && m.t1 && m.t2, "{:?}", o.mismatches);
        }
        (ctx, m)
    }

    fn actions(&self, _ctx: &Ctx, m: &Model) -> Vec<Act> {
        let mut v = vec![];
        if !m.t1 { v.push(Act::Deploy); }
        if !m.t2 { v.push(Act::Register); }
        if m.t1 && !m.t1_also_canonical { v.push(Act::RegisterDeployedAsCanonical); }
        if m.t2 { v.push(Act::HubDeployForCanonicalId); }
        if m.t1_also_canonical {
            for amt in [Amt::One, Amt::All] {
                v.push(Act::Out { token: 5, sender: 0, amt, trusted_dest: true, data: false, gas: 0, auth: true, gas_tok: 2, hub: false });
            }
        }
        let amts = [Amt::One, Amt::All, Amt::AllPlus1, Amt::Zero, Amt::Neg];
        for token in 0..3u8 {
            for sender in 0..2usize {
                for amt in amts {
                    if token == 2 && amt != Amt::One { continue; }
                    v.push(Act::Out { token, sender, amt, trusted_dest: true, data: false, gas: 0, auth: true, gas_tok: 2, hub: false });
                }
            }
        }
        for token in 0..2u8 {
            v.push(Act::Out { token, sender: 0, amt: Amt::One, trusted_dest: false, data: false, gas: 0, auth: true, gas_tok: 2, hub: false });
            v.push(Act::Out { token, sender: 0, amt: Amt::One, trusted_dest: true, data: true, gas: 0, auth: true, gas_tok: 2, hub: false });
            v.push(Act::Out { token, sender: 0, amt: Amt::One, trusted_dest: true, data: false, gas: 0, auth: true, gas_tok: 2, hub: true });
            // a transfer that carries data still has to move a positive amount
            v.push(Act::Out { token, sender: 0, amt: Amt::Zero, trusted_dest: true, data: true, gas: 0, auth: true, gas_tok: 2, hub: false });
            v.push(Act::Out { token, sender: 0, amt: Amt::Neg, trusted_dest: true, data: true, gas: 0, auth: true, gas_tok: 2, hub: false });
            for gas in 1..4u8 {
                v.push(Act::Out { token, sender: 0, amt: Amt::One, trusted_dest: true, data: false, gas, auth: true, gas_tok: 2, hub: false });
            }
            v.push(Act::Out { token, sender: 0, amt: Amt::One, trusted_dest: true, data: false, gas: 0, auth: false, gas_tok: 2, hub: false });
        }
        // the second token of each kind: transfers must touch exactly that token
        for token in [3u8, 4] {
            for sender in 0..2usize {
                for amt in [Amt::One, Amt::All] {
                    v.push(Act::Out { token, sender, amt, trusted_dest: true, data: false, gas: 0, auth: true, gas_tok: 2, hub: false });
                }
            }
        }
        // the gas is paid in the transferred token itself, or in the other ITS token
        for (token, gas_tok) in [(0u8, 0u8), (1, 1), (0, 1), (1, 0)] {
            for amt in [Amt::One, Amt::All] {
                v.push(Act::Out { token, sender: 0, amt, trusted_dest: true, data: false, gas: 0, auth: true, gas_tok, hub: false });
            }
        }
        if m.inbound < if self.thorough { 4 } else { 3 } {
            for token in [0u8, 1, 3, 4] {
                for recipient in 0..5u8 {
                    for amt in [Amt::One, Amt::All, Amt::AllPlus1, Amt::Huge] {
                        if (token == 0 || token == 3) && amt != Amt::One && amt != Amt::Huge { continue; }
                        if token >= 3 && (recipient == 1 || amt == Amt::Huge) { continue; }
                        if recipient == 2 && (amt != Amt::One || token >= 3) { continue; }
                        // asset-contract tokens need a trustline for account recipients: service-deployed tokens only
                        if recipient == 3 && (amt != Amt::One || token != 0) { continue; }
                        if recipient == 4 && (amt != Amt::One || token >= 3) { continue; }
                        v.push(Act::In { token, recipient, amt });
                    }
                }
            }
        }
        if m.last_in.is_some() {
            v.push(Act::ReplayLastInbound);
        }
        v.push(Act::RemoveTrusted);
        v.push(Act::SetTrusted);
        if m.advances < 1 {
            v.push(Act::Advance(20));
            // ~405 days: longer than the maximum entry TTL, so every temporary entry is gone by then, while
            // the world's keeper (World::set_seq) keeps instance / persistent entries alive
            v.push(Act::Advance(7_000_000));
        }
        v
    }

    fn step(&self, ctx: &Ctx, m: &mut Model, a: &Act, out: &mut StepOut) {
        let iw = &ctx.iw;
        let w = &iw.w;
        let env = &w.env;
        let h0 = w.state_hash();
        match a {
            Act::Advance(n) => {
                out.kind = "advance";
                out.accepted = true;
                w.set_seq(w.seq() + n);
                w.set_time(w.now() + 5 * *n as u64);
                m.advances += 1;
            }
            Act::Deploy => {
                out.kind = "deploy";
                let u = [iw.users[0].clone()];
                let c = w.call(
                    &iw.its,
                    "deploy_interchain_token",
                    &[iw.users[0].to_val(), to_val(env, &sbytes(&SALT)), to_val(env, &metadata_scval(b"Token One", b"ONE", 7)), w.v(20i128), to_val(env, &ScVal::Void)],
                    Auth::By(&u),
                );
                out.accepted = c.ok;
                out.expect(c.ok == !m.t1, "deploy.outcome", || format!("ok={} ({})", c.ok, c.err));
                if c.ok { m.t1 = true; m.bal[0][0] += 20; }
            }
            Act::Register => {
                out.kind = "register";
                let c = w.call(&iw.its, "register_canonical_token", &[iw.assets[0].to_val()], Auth::Nobody);
                out.accepted = c.ok;
                out.expect(c.ok == !m.t2, "register.outcome", || format!("ok={} ({})", c.ok, c.err));
                if c.ok { m.t2 = true; }
            }
            Act::RegisterDeployedAsCanonical => {
                out.kind = "register";
                let c = w.call(&iw.its, "register_canonical_token", &[ctx.t1.to_val()], Auth::Nobody);
                out.accepted = c.ok;
                out.expect(c.ok, "register.outcome", || format!("registering the deployed token's address as canonical: ok={} ({})", c.ok, c.err));
                if c.ok { m.t1_also_canonical = true; }
            }
            Act::HubDeployForCanonicalId => {
                out.kind = "inbound-deploy-refused";
                let payload = abi_hub(&RHub::ReceiveFromHub {
                    chain: X.as_bytes().to_vec(),
                    msg: RMsg::Deploy { token_id: ctx.t2_id, name: b"Takeover".to_vec(), symbol: b"TKO".to_vec(), decimals: 7, minter: vec![] },
                });
                let mid = format!("dep-{}", m.inbound);
                let pre = w.snap();
                let ap = iw.approve_delivery(HUB_CHAIN, &mid, HUB_ADDRESS, &iw.its, &payload);
                assert!(ap.ok);
                let h1 = w.state_hash();
                let call = iw.execute(&iw.its, HUB_CHAIN, &mid, HUB_ADDRESS, &payload);
                out.accepted = call.ok;
                out.expect(!call.ok, "inbound.deploy-over-canonical-id", || "a hub deployment message for the id of a registered canonical token was executed".into());
                if !call.ok {
                    out.expect(h1 == w.state_hash(), "rejected-but-changed-state", || format!("{:?}", a));
                }
                w.restore(&pre);
            }
            Act::SetTrusted | Act::RemoveTrusted => {
                out.kind = "trust";
                let set = matches!(a, Act::SetTrusted);
                let c = if set { iw.set_trusted(X) } else { iw.remove_trusted(X) };
                out.accepted = c.ok;
                out.expect(c.ok == (m.trusted != set), "trust.outcome", || format!("{:?}: ok={}", a, c.ok));
                if c.ok { m.trusted = set; }
            }
            Act::Out { token, sender, amt, trusted_dest, data, gas, auth, gas_tok, hub } => {
                out.kind = "outbound";
                let (tid, registered, tix) = match token {
                    0 => (ctx.t1_id, m.t1, 0usize),
                    1 => (ctx.t2_id, m.t2, 1),
                    3 => (ctx.t3_id, true, 3),
                    4 => (ctx.t4_id, true, 4),
                    // T1 through the id its address was registered under as a canonical token: locked, not burned
                    5 => (ctx.t1c_id, m.t1 && m.t1_also_canonical, 0),
                    _ => (UNKNOWN, false, 0),
                };
                let native = (tix == 0 || tix == 3) && *token != 5;
                let bal = if *token != 2 { m.bal[tix][*sender] } else { 0 };
                let x = match amt { Amt::Neg => -1, Amt::Zero => 0, Amt::One => 1, Amt::All => bal, Amt::AllPlus1 => bal + 1, Amt::Huge => 1 };
                let gt = *gas_tok as usize;
                let gas_registered = match gt { 0 => m.t1, _ => true };
                let gbal = m.bal[gt][*sender];
                let g = match gas { 0 => 1, 1 => gbal + 1, 2 => 0, _ => -1 };
                let chain = if *hub { HUB_CHAIN } else if *trusted_dest { X } else { Z };
                let data_bytes: Vec<u8> = if *data { b"call-data".to_vec() } else { vec![] };
                let s = &iw.users[*sender];
                let signers = if *auth { vec![s.clone()] } else { vec![iw.users[1 - *sender].clone()] };
                let call = w.call(
                    &iw.its,
                    "interchain_transfer",
                    &[
                        s.to_val(),
                        to_val(env, &sbytes(&tid)),
                        to_val(env, &sstr(chain)),
                        to_val(env, &sbytes(DEST)),
                        w.v(x),
                        to_val(env, &if *data { sbytes(&data_bytes) } else { ScVal::Void }),
                        to_val(env, &token_scval(&iw.sc(self.token_addr(ctx, gt)), g)),
                    ],
                    Auth::By(&signers),
                );
                out.accepted = call.ok;
                // when the gas is paid in the transferred token the sender needs amount + gas
                let enough_gas = if gt == tix && *token != 2 { bal >= x.max(0) + g } else { gbal >= g };
                let want = *auth && registered && gas_registered && x > 0 && bal >= x && *trusted_dest && (m.trusted || *hub) && g > 0 && enough_gas;
                out.expect(call.ok == want, "outbound.outcome", || {
                    format!("{:?} (amount {}, gas {}, balance {}, gas balance {}, trusted {}): ok={} ({}), model {}", a, x, g, bal, gbal, m.trusted, call.ok, call.err, want)
                });
                if !call.ok {
                    out.expect(h0 == w.state_hash(), "rejected-but-changed-state", || format!("{:?}", a));
                    return;
                }
                if !want { return; }
                if native { m.bal[tix][*sender] -= x; m.burned[tix] += x; } else { m.bal[tix][*sender] -= x; m.bal[tix][3] += x; if *token != 5 { m.locked[tix] += x; } }
                m.bal[gt][*sender] -= g;
                m.bal[gt][4] += g;
                // the announcement
                let payload = abi_hub(&RHub::SendToHub {
                    chain: chain.as_bytes().to_vec(),
                    msg: RMsg::Transfer { token_id: tid, source_address: addr_xdr(&iw.sc(s)), destination_address: DEST.to_vec(), amount: x as u128, data: data_bytes.clone() },
                });
                let ph = keccak(&payload);
                let mut sent_must = vec![sbytes(&tid), w.sc_addr_val(s), sstr(chain), sbytes(DEST), si128(x)];
                if *data { sent_must.push(sbytes(&data_bytes)); }
                let expected = vec![
                    EvPat { contract: iw.sc(&iw.its), name: "interchain_transfer_sent", must: sent_must },
                    EvPat { contract: iw.sc(&iw.gas), name: "gas_paid", must: vec![w.sc_addr_val(&iw.its), sstr(HUB_CHAIN), sstr(HUB_ADDRESS), sbytes(&ph), w.sc_addr_val(s), token_scval(&iw.sc(self.token_addr(ctx, gt)), g)] },
                    EvPat { contract: iw.sc(&iw.gw), name: "contract_called", must: vec![w.sc_addr_val(&iw.its), sstr(HUB_CHAIN), sstr(HUB_ADDRESS), sbytes(&ph), sbytes(&payload)] },
                ];
                let r = match_events(&call.events, &expected, &["interchain_transfer_sent", "gas_paid", "contract_called", "interchain_transfer_received"]);
                out.expect(r.is_ok(), "outbound.announcement", || truncate(&r.unwrap_err(), 900));
            }
            Act::ReplayLastInbound => {
                out.kind = "inbound-replay";
                let (token, recipient, x, _with_data) = m.last_in.unwrap();
                let tid = match token { 0 => ctx.t1_id, 1 => ctx.t2_id, 3 => ctx.t3_id, _ => ctx.t4_id };
                let (rcpt, data): (&Address, Vec<u8>) = match recipient { 0 => (&iw.users[1], vec![]), 1 => (&iw.app, b"app-data".to_vec()), 2 => (&iw.its, vec![]), _ => (&ctx.holders[5], vec![]) };
                let payload = abi_hub(&RHub::ReceiveFromHub {
                    chain: X.as_bytes().to_vec(),
                    msg: RMsg::Transfer { token_id: tid, source_address: b"remote-sender".to_vec(), destination_address: addr_xdr(&iw.sc(rcpt)), amount: x as u128, data },
                });
                let mid = format!("in-{}", m.inbound - 1);
                let ap = iw.approve_delivery(HUB_CHAIN, &mid, HUB_ADDRESS, &iw.its, &payload);
                assert!(ap.ok);
                let call = iw.execute(&iw.its, HUB_CHAIN, &mid, HUB_ADDRESS, &payload);
                out.accepted = call.ok;
                out.expect(!call.ok, "inbound.replayed-delivery-accepted", || format!("delivery {} was credited a second time", mid));
                out.expect(h0 == w.state_hash(), "inbound.replay-changed-state", || "re-approving and re-delivering an executed message changed the ledger".into());
            }
            Act::In { token, recipient, amt } => {
                out.kind = "inbound";
                let (tid, registered, tix) = match token {
                    0 => (ctx.t1_id, m.t1, 0usize),
                    1 => (ctx.t2_id, m.t2, 1),
                    3 => (ctx.t3_id, true, 3),
                    _ => (ctx.t4_id, true, 4),
                };
                let native = tix == 0 || tix == 3;
                let custody = if native { 0 } else { m.bal[tix][3] };
                let x: i128 = match amt { Amt::One => 1, Amt::All => custody, Amt::AllPlus1 => custody + 1, _ => 1 };
                let (rcpt, rix, data): (&Address, usize, Vec<u8>) = match recipient { 0 => (&iw.users[1], 1, vec![]), 1 => (&iw.app, 2, b"app-data".to_vec()), 2 => (&iw.its, 3, vec![]), _ => (&ctx.holders[5], 5, vec![]) };
                let dest_bytes = if *recipient == 4 { xdr(&sstr("GAAAAAAAAAAAAAAAAAAAAAAAAAAAAAAAAAAAAAAAAAAAAAAAAAAAAWHF")) } else { addr_xdr(&iw.sc(rcpt)) };
                let mut payload = abi_hub(&RHub::ReceiveFromHub {
                    chain: X.as_bytes().to_vec(),
                    msg: RMsg::Transfer { token_id: tid, source_address: b"remote-sender".to_vec(), destination_address: dest_bytes, amount: x as u128, data: data.clone() },
                });
                if *amt == Amt::Huge {
                    let mut wd = [0u8; 32];
                    wd[15] = 1;
                    wd[31] = 1;
                    patch_inner_word(&mut payload, 4, &wd);
                }
                let mid = format!("in-{}", m.inbound);
                let pre = w.snap();
                let ap = iw.approve_delivery(HUB_CHAIN, &mid, HUB_ADDRESS, &iw.its, &payload);
                assert!(ap.ok);
                let h1 = w.state_hash();
                let call = iw.execute(&iw.its, HUB_CHAIN, &mid, HUB_ADDRESS, &payload);
                out.accepted = call.ok;
                let want = *amt != Amt::Huge && registered && m.trusted && x >= 0 && (native || custody >= x) && *recipient != 4;
                // a zero-amount release (custody 0) is a legal no-op transfer for the asset contract
                // a zero-amount inbound transfer moves nothing; whether it is accepted is not stated
                let zero = x == 0 && *amt != Amt::Huge;
                out.expect(zero || call.ok == want, "inbound.outcome", || {
                    format!("{:?} (amount {}, custody {}, trusted {}): ok={} ({}), model {}", a, x, custody, m.trusted, call.ok, call.err, want)
                });
                if !call.ok {
                    out.expect(h1 == w.state_hash(), "rejected-but-changed-state", || format!("{:?}", a));
                    w.restore(&pre);
                    return;
                }
                if !want { return; }
                if zero { m.inbound += 1; return; }
                m.last_in = Some((*token, *recipient, x, !data.is_empty()));
                m.inbound += 1;
                if native {
                    m.bal[tix][rix] += x;
                    m.minted[tix] += x;
                } else if rix != 3 {
                    m.bal[tix][3] -= x;
                    m.bal[tix][rix] += x;
                    m.released[tix] += x;
                }
                // (a release to the service itself leaves its custody where it was)
                let mut must = vec![sstr(X), sbytes(&tid), sbytes(b"remote-sender"), w.sc_addr_val(rcpt), si128(x)];
                if !data.is_empty() { must.push(sbytes(&data)); }
                let r = match_events(
                    &call.events,
                    &[EvPat { contract: iw.sc(&iw.its), name: "interchain_transfer_received", must }],
                    &["interchain_transfer_sent", "gas_paid", "contract_called", "interchain_transfer_received"],
                );
                out.expect(r.is_ok(), "inbound.announcement", || truncate(&r.unwrap_err(), 700));
                if !data.is_empty() {
                    // the receiving app is called exactly once with exactly the announced arguments
                    let tok_addr = self.token_addr(ctx, tix);
                    let r = match_events(
                        &call.events,
                        &[EvPat {
                            contract: iw.sc(&iw.app),
                            name: "app_executed",
                            must: vec![sstr(X), sstr(&mid), sbytes(b"remote-sender"), sbytes(&data), sbytes(&tid), w.sc_addr_val(tok_addr), si128(x)],
                        }],
                        &["app_executed"],
                    );
                    out.expect(r.is_ok(), "inbound.app-call-arguments", || truncate(&r.unwrap_err(), 700));
                } else {
                    let n = call.events.iter().filter(|e| e.name() == "app_executed").count();
                    out.expect(n == 0, "inbound.app-called-without-data", || format!("{} app_executed events", n));
                }
            }
        }
    }

    fn probe(&self, ctx: &Ctx, m: &Model, out: &mut StepOut) {
        let iw = &ctx.iw;
        for t in 0..5usize {
            if t == 0 && !m.t1 { continue; }
            let tok = self.token_addr(ctx, t);
            let mut sum = 0i128;
            for (hix, h) in ctx.holders.iter().enumerate() {
                // an account without a trustline has no balance in an asset contract at all
                if hix == 5 && t != 0 && t != 3 { continue; }
                let q = iw.balance(tok, h);
                out.expect(q == Some(m.bal[t][hix]), "probe.balance", || format!("token {} holder {}: {:?} vs model {}", t, hix, q, m.bal[t][hix]));
                sum += q.unwrap_or(0);
            }
            if t == 0 || t == 3 {
                out.expect(sum == 20 + m.minted[t] - m.burned[t], "probe.supply", || format!("token {} supply {} vs 20 + minted {} - burned {}", t, sum, m.minted[t], m.burned[t]));
            }
            if t == 1 || t == 4 {
                let custody = m.bal[t][3];
                out.expect(custody == m.locked[t] - m.released[t] && custody >= 0, "probe.custody", || format!("token {} custody {} vs locked {} - released {}", t, custody, m.locked[t], m.released[t]));
            }
        }
        // the supply of a service-deployed token moves by the service's burns and mints only: an
        // allowance that has lapsed (its entry still sits in temporary storage) lets nobody burn
        if m.t1 && m.bal[0][0] >= 1 {
            let w = &iw.w;
            let t1 = self.token_addr(ctx, 0);
            let (u1, u2) = (&iw.users[0], &iw.users[1]);
            let snap = w.snap();
            let ap = w.call(t1, "approve", &[u1.to_val(), u2.to_val(), w.v(1i128), w.v(w.seq() + 1)], Auth::By(&[u1.clone()]));
            w.set_seq(w.seq() + 3);
            let burn = w.call(t1, "burn_from", &[u2.to_val(), u1.to_val(), w.v(1i128)], Auth::By(&[u2.clone()]));
            let after = iw.balance(t1, u1);
            w.restore(&snap);
            out.expect(ap.ok && !burn.ok && after == Some(m.bal[0][0]), "probe.supply-moved-on-a-lapsed-allowance", || {
                format!("approve(U1 -> U2, 1, until next ledger) ok={}; three ledgers later burn_from by U2 ok={}; U1 holds {:?} (model {})", ap.ok, burn.ok, after, m.bal[0][0])
            });
        }
    }

    fn sweep_targets(&self, ctx: &Ctx) -> (Vec<(Address, &'static str, &'static [&'static str])>, Vec<Address>) {
        let iw = &ctx.iw;
        (
            vec![
                (iw.its.clone(), "/repo/contracts/interchain-token-service/src", &axmc::inventory::ITS_KNOWN[..]),
                (iw.gw.clone(), "/repo/contracts/axelar-gateway/src", &axmc::inventory::GATEWAY_KNOWN[..]),
                (iw.gas.clone(), "/repo/contracts/axelar-gas-service/src", &axmc::inventory::GAS_KNOWN[..]),
            ],
            vec![iw.users[0].clone(), iw.users[1].clone(), iw.its.clone()],
        )
    }

    fn must_succeed_kinds(&self) -> Vec<&'static str> {
        vec!["deploy", "register", "outbound", "inbound", "trust"]
    }
}

fn main() {
    main_for(|tier| {
        let thorough = tier == "thorough";
        let mut o = Opts::new(tier, if thorough { 9 } else { 4 });
        o.min_depth = 3;
        o.wall_cap_s = if thorough { 600.0 } else { 100.0 };
        o.rule = "two base states (nothing deployed; T1 deployed + T2 registered); all sequences over deploy, register canonical, set/remove trusted chain, outbound interchain_transfer (token T1 / T2 / a second token of each kind T3, T4 / T1 through the canonical id its address was also registered under (locked, not burned) / unknown id; sender U1 / U2; amount -1, 0, 1, balance, balance+1; trusted / untrusted destination (the trusted chain's name is exactly 32 bytes long) / the hub's own chain named as destination; with / without data; gas 1 / unaffordable / 0 / negative, paid in the gas token or in the transferred token itself or the other ITS token; authorised by the sender or by the other user) and approved inbound transfers (replays of the last executed one included; token T1 / T2; to a user, with data to an app, to the service itself, to an account-type address, or to recipient bytes that are the XDR of a string (refused); amount 1, custody, custody+1; bounded count). After every new state every balance of T1, T2 and the gas token for U1, U2, app, ITS, gas service, custody == locked - released >= 0 and supply(T1) == 20 + minted - burned are compared, and a burn_from on an allowance that lapsed two ledgers earlier is tried on a snapshot (refused); every successful outbound call's three events and payload are compared with the independent ABI encoding and keccak".into();
        (C05 { thorough }, o)
    });
}
