//! Prints the entry-point inventory of every contract of the current tree (helper for maintaining
//! the KNOWN_ENTRY_POINTS lists of the scenarios).
fn main() {
    for c in ["axelar-gateway", "axelar-gas-service", "axelar-operators", "interchain-token-service", "interchain-token", "upgrader", "example"] {
        let v = axmc::inventory::exported_fns(std::path::Path::new(&format!("/repo/contracts/{}/src", c)));
        println!("{}: {:?}", c, v.iter().map(|f| f.name.clone()).collect::<Vec<_>>());
        for f in &v {
            println!("    {}({})", f.name, f.params.iter().map(|(n, t)| format!("{}: {}", n, t)).collect::<Vec<_>>().join(", "));
        }
    }
}
