//! C12: token balances, allowances and supply follow the standard token rules.
//! All interleavings of mint / transfer / approve / delegated transfer / burn / delegated
//! burn / minter and owner changes / ledger advancement over three accounts, against a
//! plain reference token model.

use axmc::aux::Principal;
use axmc::explore::*;
use axmc::its::metadata_scval;
use axmc::refs::*;
use axmc::world::*;
use serde::{Deserialize, Serialize};
use soroban_sdk::xdr::ScVal;
use soroban_sdk::Address;
use std::collections::BTreeMap;

// address universe indices
const A: usize = 0;
const B: usize = 1;
const C: usize = 2;
const O: usize = 3;
const M: usize = 4;

struct Ctx {
    w: World,
    tok: Address,
    addr: Vec<Address>,
}

#[derive(Clone, Hash)]
struct Model {
    bal: [i128; 3],
    /// (from, spender) -> (amount, expiration ledger)
    allow: BTreeMap<(usize, usize), (i128, u32)>,
    minters: Vec<usize>,
    owner: usize,
    seq: u32,
    /// current total supply (two balances of i128::MAX fit)
    supply: (u128, u128),
    advances: u8,
}

impl Model {
    fn allowance(&self, from: usize, spender: usize) -> i128 {
        match self.allow.get(&(from, spender)) {
            Some((amt, exp)) if *exp >= self.seq => *amt,
            _ => 0,
        }
    }
}

/// amounts are chosen relative to the state
#[derive(Clone, Copy, Debug, PartialEq, Eq, Serialize, Deserialize)]
enum Amt {
    Neg,
    Zero,
    One,
    Five,
    Bal,
    BalPlus1,
    Allow,
    AllowPlus1,
    Max,
}

#[derive(Clone, Debug, Serialize, Deserialize)]
enum Act {
    Mint { to: usize, amt: Amt },
    MintFrom { minter: usize, to: usize, amt: Amt },
    Transfer { from: usize, to: usize, amt: Amt },
    /// expiration = current ledger + `exp` - 1 (exp 21: beyond the minimum temporary-entry TTL);
    /// 200 / 201 stand for 250,000 / 300,000 ledgers ahead (both more than two weeks), 202 for
    /// ledger u32::MAX (further away than any ledger entry can live)
    Approve { from: usize, spender: usize, amt: Amt, exp: u8 },
    TransferFrom { spender: usize, from: usize, to: usize, amt: Amt },
    Burn { from: usize, amt: Amt },
    BurnFrom { spender: usize, from: usize, amt: Amt },
    AddMinter(usize),
    RemoveMinter(usize),
    TransferOwnership(usize),
    SetAdmin(usize),
    Advance(u32),
}

/// 256-bit (lo, hi) arithmetic for the total supply (several balances of i128::MAX)
fn wide_add(a: (u128, u128), x: u128) -> (u128, u128) {
    let (lo, carry) = a.0.overflowing_add(x);
    (lo, a.1 + carry as u128)
}
fn wide_sub(a: (u128, u128), x: u128) -> (u128, u128) {
    let (lo, borrow) = a.0.overflowing_sub(x);
    (lo, a.1 - borrow as u128)
}

struct C12 {
    thorough: bool,
}

fn resolve(m: &Model, amt: Amt, holder: usize, allow: Option<(usize, usize)>) -> i128 {
    let bal = if holder < 3 { m.bal[holder] } else { 0 };
    let al = allow.map(|(f, s)| m.allowance(f, s)).unwrap_or(0);
    match amt {
        Amt::Neg => -1,
        Amt::Zero => 0,
        Amt::One => 1,
        Amt::Five => 5,
        Amt::Bal => bal,
        Amt::BalPlus1 => bal.saturating_add(1),
        Amt::Allow => al,
        Amt::AllowPlus1 => al.saturating_add(1),
        Amt::Max => i128::MAX,
    }
}

impl Scenario for C12 {
    type Ctx = Ctx;
    type M = Model;
    type A = Act;

    fn id(&self) -> &'static str { "C12" }
    fn n_configs(&self) -> usize { 2 }
    fn config_label(&self, c: usize) -> String {
        if c == 0 { "interchain token, owner O, constructor minter M, accounts A B C".into() } else { "interchain token whose constructor minter is the owner O itself, accounts A B C".into() }
    }
    fn world<'a>(&self, ctx: &'a Ctx) -> &'a World { &ctx.w }

    fn build(&self, c: usize) -> (Ctx, Model) {
        let w = World::new();
        let env = &w.env;
        let addr: Vec<Address> = (0..5).map(|_| env.register(Principal, ())).collect();
        let tok = env.register(
            interchain_token::InterchainToken,
            (
                addr[O].clone(),
                Some(addr[if c == 1 { O } else { M }].clone()),
                to_val(env, &sbytes(&[7u8; 32])),
                to_val(env, &metadata_scval(b"Token", b"TOK", 7)),
            ),
        );
        let seq = w.seq();
        (
            Ctx { w, tok, addr },
            Model { bal: [0; 3], allow: BTreeMap::new(), minters: if c == 1 { vec![O] } else { vec![O, M] }, owner: O, seq, supply: (0, 0), advances: 0 },
        )
    }

    fn actions(&self, _ctx: &Ctx, m: &Model) -> Vec<Act> {
        let t = self.thorough;
        let mut v = vec![];
        for (to, amts) in [(A, vec![Amt::Five, Amt::One, Amt::Zero, Amt::Neg, Amt::Max]), (B, vec![Amt::Five, Amt::Max])] {
            for amt in amts {
                if !t && amt == Amt::Max && to == B { continue; }
                v.push(Act::Mint { to, amt });
            }
        }
        for minter in [M, A] {
            v.push(Act::MintFrom { minter, to: A, amt: Amt::One });
        }
        if t { v.push(Act::MintFrom { minter: O, to: B, amt: Amt::Five }); }
        let pairs: Vec<(usize, usize)> = if t { vec![(A, B), (B, A), (A, A), (A, C)] } else { vec![(A, B), (A, A)] };
        for (from, to) in pairs {
            for amt in [Amt::One, Amt::Bal, Amt::BalPlus1, Amt::Zero, Amt::Neg] {
                v.push(Act::Transfer { from, to, amt });
            }
        }
        let apairs: Vec<(usize, usize)> = if t { vec![(A, B), (B, C), (A, A)] } else { vec![(A, B)] };
        for (from, spender) in apairs {
            for amt in [Amt::Five, Amt::One, Amt::Zero, Amt::Neg, Amt::Max] {
                for exp in [0u8, 1, 2, 3, 21, 200, 201, 202] {
                    // an allowance of exactly i128::MAX is an ordinary allowance
                    if amt == Amt::Max && exp != 3 { continue; }
                    if !t && (amt == Amt::One || (amt == Amt::Neg && exp != 1)) { continue; }
                    if exp >= 21 && amt != Amt::Five { continue; }
                    if exp >= 200 && (from, spender) != (A, B) { continue; }
                    v.push(Act::Approve { from, spender, amt, exp });
                }
            }
        }
        let tf: Vec<(usize, usize, usize)> = if t { vec![(B, A, C), (C, B, A), (B, A, B)] } else { vec![(B, A, C)] };
        for (spender, from, to) in tf {
            // (Five: exactly what an allowance granted earlier was for, whatever has become of it since)
            for amt in [Amt::One, Amt::Allow, Amt::AllowPlus1, Amt::BalPlus1, Amt::Zero, Amt::Neg, Amt::Five] {
                v.push(Act::TransferFrom { spender, from, to, amt });
            }
        }
        for from in if t { vec![A, B] } else { vec![A] } {
            for amt in [Amt::One, Amt::Bal, Amt::BalPlus1, Amt::Zero, Amt::Neg] {
                v.push(Act::Burn { from, amt });
            }
        }
        for (spender, from) in if t { vec![(B, A), (C, B)] } else { vec![(B, A)] } {
            for amt in [Amt::One, Amt::Allow, Amt::AllowPlus1, Amt::Zero, Amt::Five] {
                v.push(Act::BurnFrom { spender, from, amt });
            }
        }
        v.push(Act::AddMinter(A));
        // a delegated spender that is also a minter must still be bound by its allowance
        v.push(Act::AddMinter(B));
        v.push(Act::RemoveMinter(M));
        v.push(Act::RemoveMinter(O));
        if t { v.push(Act::RemoveMinter(A)); v.push(Act::AddMinter(O)); }
        v.push(Act::SetAdmin(A));
        v.push(Act::TransferOwnership(O));
        if t { v.push(Act::TransferOwnership(A)); v.push(Act::SetAdmin(m.owner)); }
        if m.advances < if t { 4 } else { 3 } {
            v.push(Act::Advance(1));
            v.push(Act::Advance(2));
            // longer than the minimum temporary-entry TTL (16), shorter than a 20-ledger allowance
            v.push(Act::Advance(17));
            // between the two far expirations (250,000 and 300,000 ledgers ahead)
            v.push(Act::Advance(260_000));
        }
        v
    }

    fn step(&self, ctx: &Ctx, m: &mut Model, a: &Act, out: &mut StepOut) {
        let w = &ctx.w;
        let ad = &ctx.addr;
        let tokc = w.sc_addr(&ctx.tok);
        let h0 = w.state_hash();
        let av = |i: usize| w.sc_addr_val(&ad[i]);
        // (function, args, authoriser, expected-acceptance, expected events, model update)
        let mut expected_events: Vec<EvPat> = vec![];
        // a zero-amount mint / transfer / burn moves nothing: the statement does not say whether
        // it is accepted, so only "no effect" is required of it
        let zero_amount = match a {
            Act::Mint { to, amt } | Act::MintFrom { to, amt, .. } => resolve(m, *amt, *to, None) == 0,
            Act::Transfer { from, amt, .. } | Act::Burn { from, amt } => resolve(m, *amt, *from, None) == 0,
            Act::TransferFrom { spender, from, amt, .. } | Act::BurnFrom { spender, from, amt } => {
                resolve(m, *amt, *from, Some((*from, *spender))) == 0
            }
            _ => false,
        };
        let unspecified_outcome = zero_amount;
        let (call, want): (Call, bool) = match a {
            Act::Advance(n) => {
                out.kind = "advance";
                out.accepted = true;
                w.set_seq(w.seq() + n);
                w.set_time(w.now() + 5 * *n as u64);
                m.seq += n;
                m.advances += 1;
                return;
            }
            Act::Mint { to, amt } => {
                out.kind = "mint";
                let x = resolve(m, *amt, *to, None);
                let want = x >= 0 && m.minters.contains(&m.owner) && m.bal[*to].checked_add(x).is_some();
                let c = w.call(&ctx.tok, "mint", &[ad[*to].to_val(), w.v(x)], Auth::By(&[ad[m.owner].clone()]));
                if want {
                    m.bal[*to] += x;
                    m.supply = wide_add(m.supply, x as u128);
                    expected_events.push(EvPat { contract: tokc.clone(), name: "mint", must: vec![av(m.owner), av(*to), si128(x)] });
                }
                (c, want)
            }
            Act::MintFrom { minter, to, amt } => {
                out.kind = "mint_from";
                let x = resolve(m, *amt, *to, None);
                let want = x >= 0 && m.minters.contains(minter) && m.bal[*to].checked_add(x).is_some();
                let c = w.call(&ctx.tok, "mint_from", &[ad[*minter].to_val(), ad[*to].to_val(), w.v(x)], Auth::By(&[ad[*minter].clone()]));
                if want {
                    m.bal[*to] += x;
                    m.supply = wide_add(m.supply, x as u128);
                    expected_events.push(EvPat { contract: tokc.clone(), name: "mint", must: vec![av(*minter), av(*to), si128(x)] });
                }
                (c, want)
            }
            Act::Transfer { from, to, amt } => {
                out.kind = "transfer";
                let x = resolve(m, *amt, *from, None);
                let want = x >= 0 && m.bal[*from] >= x && (from == to || m.bal[*to].checked_add(x).is_some());
                let c = w.call(&ctx.tok, "transfer", &[ad[*from].to_val(), ad[*to].to_val(), w.v(x)], Auth::By(&[ad[*from].clone()]));
                if want {
                    m.bal[*from] -= x;
                    m.bal[*to] += x;
                    expected_events.push(EvPat { contract: tokc.clone(), name: "transfer", must: vec![av(*from), av(*to), si128(x)] });
                }
                (c, want)
            }
            Act::Approve { from, spender, amt, exp } => {
                out.kind = "approve";
                let x = resolve(m, *amt, *from, None);
                let e = if *exp == 202 { u32::MAX } else { m.seq + match *exp { 200 => 250_001, 201 => 300_001, x => x as u32 } - 1 };
                // an expiration beyond the longest lifetime a ledger entry can have cannot be honoured
                let want = x >= 0 && !(x > 0 && e < m.seq) && !(x > 0 && *exp == 202);
                let c = w.call(
                    &ctx.tok,
                    "approve",
                    &[ad[*from].to_val(), ad[*spender].to_val(), w.v(x), w.v(e)],
                    Auth::By(&[ad[*from].clone()]),
                );
                if want {
                    m.allow.insert((*from, *spender), (x, e));
                    expected_events.push(EvPat { contract: tokc.clone(), name: "approve", must: vec![av(*from), av(*spender), si128(x), su32(e)] });
                }
                (c, want)
            }
            Act::TransferFrom { spender, from, to, amt } => {
                out.kind = "transfer_from";
                let x = resolve(m, *amt, *from, Some((*from, *spender)));
                let want = x >= 0
                    && m.allowance(*from, *spender) >= x
                    && m.bal[*from] >= x
                    && (from == to || m.bal[*to].checked_add(x).is_some());
                let c = w.call(
                    &ctx.tok,
                    "transfer_from",
                    &[ad[*spender].to_val(), ad[*from].to_val(), ad[*to].to_val(), w.v(x)],
                    Auth::By(&[ad[*spender].clone()]),
                );
                if want {
                    if x > 0 {
                        let e = m.allow.get_mut(&(*from, *spender)).unwrap();
                        e.0 -= x;
                    }
                    m.bal[*from] -= x;
                    m.bal[*to] += x;
                    expected_events.push(EvPat { contract: tokc.clone(), name: "transfer", must: vec![av(*from), av(*to), si128(x)] });
                }
                (c, want)
            }
            Act::Burn { from, amt } => {
                out.kind = "burn";
                let x = resolve(m, *amt, *from, None);
                let want = x >= 0 && m.bal[*from] >= x;
                let c = w.call(&ctx.tok, "burn", &[ad[*from].to_val(), w.v(x)], Auth::By(&[ad[*from].clone()]));
                if want {
                    m.bal[*from] -= x;
                    m.supply = wide_sub(m.supply, x as u128);
                    expected_events.push(EvPat { contract: tokc.clone(), name: "burn", must: vec![av(*from), si128(x)] });
                }
                (c, want)
            }
            Act::BurnFrom { spender, from, amt } => {
                out.kind = "burn_from";
                let x = resolve(m, *amt, *from, Some((*from, *spender)));
                let want = x >= 0 && m.allowance(*from, *spender) >= x && m.bal[*from] >= x;
                let c = w.call(
                    &ctx.tok,
                    "burn_from",
                    &[ad[*spender].to_val(), ad[*from].to_val(), w.v(x)],
                    Auth::By(&[ad[*spender].clone()]),
                );
                if want {
                    if x > 0 {
                        let e = m.allow.get_mut(&(*from, *spender)).unwrap();
                        e.0 -= x;
                    }
                    m.bal[*from] -= x;
                    m.supply = wide_sub(m.supply, x as u128);
                    expected_events.push(EvPat { contract: tokc.clone(), name: "burn", must: vec![av(*from), si128(x)] });
                }
                (c, want)
            }
            Act::AddMinter(x) => {
                out.kind = "add_minter";
                let c = w.call(&ctx.tok, "add_minter", &[ad[*x].to_val()], Auth::By(&[ad[m.owner].clone()]));
                if !m.minters.contains(x) {
                    m.minters.push(*x);
                    m.minters.sort();
                }
                (c, true)
            }
            Act::RemoveMinter(x) => {
                out.kind = "remove_minter";
                let c = w.call(&ctx.tok, "remove_minter", &[ad[*x].to_val()], Auth::By(&[ad[m.owner].clone()]));
                m.minters.retain(|y| y != x);
                (c, true)
            }
            Act::TransferOwnership(n) | Act::SetAdmin(n) => {
                out.kind = "admin_change";
                let f = if matches!(a, Act::SetAdmin(_)) { "set_admin" } else { "transfer_ownership" };
                let c = w.call(&ctx.tok, f, &[ad[*n].to_val()], Auth::By(&[ad[m.owner].clone()]));
                expected_events.push(EvPat { contract: tokc.clone(), name: "set_admin", must: vec![av(m.owner), av(*n)] });
                m.owner = *n;
                (c, true)
            }
        };
        out.accepted = call.ok;
        if !unspecified_outcome {
            out.expect(call.ok == want, &format!("{}.outcome", out.kind), || {
                format!("{:?}: ok={} ({}), model says {} (bal {:?}, allow {:?}, minters {:?}, owner {}, seq {})",
                    a, call.ok, call.err, want, m.bal, m.allow, m.minters, m.owner, m.seq)
            });
        }
        if call.ok && zero_amount {
            // nothing may have moved (probes compare every balance and allowance with the unchanged model)
        } else if call.ok {
            let r = match_events(&call.events, &expected_events, &["mint", "transfer", "approve", "burn", "set_admin", "clawback"]);
            out.expect(r.is_ok(), &format!("{}.events", out.kind), || truncate(&r.unwrap_err(), 600));
        } else {
            out.expect(h0 == w.state_hash(), "rejected-but-changed-state", || format!("{:?}", a));
        }
    }

    fn probe(&self, ctx: &Ctx, m: &Model, out: &mut StepOut) {
        self.token_queries(ctx, m, out);
        // exported functions the check does not drive by name (today: the aborting asset-interface
        // stubs): called with nobody's authorisation they must leave the whole token state alone
        let w = &ctx.w;
        let addresses = [ctx.addr[A].clone(), ctx.addr[B].clone(), ctx.tok.clone()];
        let targets: [(&Address, &str, &[&str]); 1] = [(&ctx.tok, "/repo/contracts/interchain-token/src", &axmc::inventory::TOKEN_KNOWN)];
        let owner = [ctx.addr[m.owner].clone()];
        for (contract, func, args) in axmc::inventory::unknown_calls(w, "C12", &targets, &addresses, 48) {
            // with nobody's authorisation nothing at all may change; with only the owner's, whatever
            // else such a function does, balances, supply and allowances are not the owner's to change
            for by_owner in [false, true] {
                let snap = w.snap();
                let call = w.call(&contract, &func, &args, if by_owner { Auth::By(&owner) } else { Auth::Nobody });
                if call.ok {
                    let mut o = StepOut::default();
                    self.token_queries(ctx, m, &mut o);
                    out.checks += o.checks;
                    for mm in o.mismatches {
                        if by_owner && !(mm.sig.starts_with("probe.balance") || mm.sig.starts_with("probe.supply") || mm.sig.starts_with("probe.allowance") || mm.sig.starts_with("probe.negative")) {
                            continue;
                        }
                        out.fail(
                            "unknown-entry-point.changed-token-state",
                            format!("after `{}` (not among the known entry points) was called with {} authorisation: {} :: {}", func, if by_owner { "only the owner's" } else { "nobody's" }, mm.sig, mm.detail),
                        );
                    }
                }
                w.restore(&snap);
            }
        }
    }

    fn must_succeed_kinds(&self) -> Vec<&'static str> {
        vec!["mint", "mint_from", "transfer", "approve", "transfer_from", "burn", "burn_from", "admin_change", "add_minter"]
    }
}

impl C12 {
    fn token_queries(&self, ctx: &Ctx, m: &Model, out: &mut StepOut) {
        let w = &ctx.w;
        let ad = &ctx.addr;
        let mut sum: (u128, u128) = (0, 0);
        for i in [A, B, C] {
            let q = w.query(&ctx.tok, "balance", &[ad[i].to_val()]).and_then(|v| i128_of(&v));
            out.expect(q == Some(m.bal[i]), "probe.balance", || format!("account {}: {:?} vs model {}", i, q, m.bal[i]));
            if let Some(b) = q {
                out.expect(b >= 0, "probe.negative-balance", || format!("account {} balance {}", i, b));
                sum = wide_add(sum, b.max(0) as u128);
            }
        }
        out.expect(sum == m.supply, "probe.supply", || format!("sum of balances {:?} vs minted - burned {:?} (lo, hi limbs)", sum, m.supply));
        for f in [A, B, C] {
            for s in [A, B, C] {
                let q = w.query(&ctx.tok, "allowance", &[ad[f].to_val(), ad[s].to_val()]).and_then(|v| i128_of(&v));
                let want = m.allowance(f, s);
                out.expect(q == Some(want), "probe.allowance", || {
                    format!("allowance({},{}) = {:?}, model {} (entry {:?}, seq {})", f, s, q, want, m.allow.get(&(f, s)), m.seq)
                });
            }
        }
        for x in [A, B, O, M] {
            let q = w.query(&ctx.tok, "is_minter", &[ad[x].to_val()]);
            out.expect(q == Some(ScVal::Bool(m.minters.contains(&x))), "probe.is_minter", || format!("{}: {:?} vs {:?}", x, q, m.minters));
        }
        let q = w.query(&ctx.tok, "owner", &[]);
        out.expect(q == Some(w.sc_addr_val(&ad[m.owner])), "probe.owner", || format!("{:?} vs {}", q, m.owner));
    }

}

fn main() {
    main_for(|tier| {
        let thorough = tier == "thorough";
        let mut o = Opts::new(tier, if thorough { 7 } else { 4 });
        o.min_depth = 3;
        o.wall_cap_s = if thorough { 600.0 } else { 100.0 };
        o.rule = "all sequences over mint (owner), mint_from (constructor minter, non-minter), transfer, approve (expiration = ledger-1, ledger, ledger+1, ledger+2, ledger+20, ledger+250000, ledger+300000, u32::MAX), transfer_from, burn, burn_from with amounts chosen relative to the state {-1, 0, 1, 5, balance, balance+1, allowance, allowance+1, i128::MAX}, add/remove minter (incl. removing the owner's own minter role), set_admin / transfer_ownership, advance 1, 2, 17 or 260000 ledgers; accounts A, B, C; after every new state balance() of all accounts, allowance() of all 9 ordered pairs, is_minter, owner() and sum(balances) == minted - burned are compared with the reference token".into();
        (C12 { thorough }, o)
    });
}
