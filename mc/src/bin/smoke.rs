use axmc::world::*;
use axmc::aux::*;
use soroban_sdk::testutils::Address as _;
use soroban_sdk::{Address, String, IntoVal, Val};
use std::time::Instant;

fn main() {
    let w = World::new();
    let env = &w.env;
    let p0 = env.register(Principal, ());
    let p1 = env.register(Principal, ());
    let p2 = env.register(Principal, ());
    let its = Address::generate(env);
    let tid = soroban_sdk::BytesN::<32>::from_array(env, &[7u8; 32]);
    let meta = soroban_token_sdk::metadata::TokenMetadata { decimal: 7, name: String::from_str(env, "n"), symbol: String::from_str(env, "s") };
    let tok = env.register(interchain_token::InterchainToken, (p0.clone(), Some(p1.clone()), tid, meta));
    println!("hash0 {:x}", w.state_hash());
    let c = w.call(&tok, "mint_from", &[p1.to_val(), p2.to_val(), w.v(100i128)], Auth::By(&[p1.clone()]));
    println!("mint_from by p1: {:?}", c);
    let c = w.call(&tok, "mint_from", &[p1.to_val(), p2.to_val(), w.v(100i128)], Auth::By(&[p2.clone()]));
    println!("mint_from by p2: ok={} {}", c.ok, c.err);
    let c = w.call(&tok, "mint_from", &[p1.to_val(), p2.to_val(), w.v(100i128)], Auth::Nobody);
    println!("mint_from by nobody: ok={} {}", c.ok, c.err);
    let c = w.call(&tok, "mint_from", &[p1.to_val(), p2.to_val(), w.v(100i128)], Auth::Altered(&[p1.clone()]));
    println!("mint_from altered: ok={} {}", c.ok, c.err);
    println!("balance {:?}", w.query(&tok, "balance", &[p2.to_val()]));
    let s = w.snap();
    let h = w.state_hash();
    let t = Instant::now();
    let n = 20000;
    let mut oks = 0;
    for i in 0..n {
        let c = w.call(&tok, "transfer", &[p2.to_val(), p0.to_val(), w.v(1i128)], Auth::By(&[p2.clone()]));
        if c.ok { oks += 1; }
        if i % 50 == 49 { w.restore(&s); }
    }
    println!("transfer with record+enforce: {:?}/call oks={}", t.elapsed() / n, oks);
    w.restore(&s);
    assert_eq!(h, w.state_hash());
    let t = Instant::now();
    for _ in 0..n { let _ = w.state_hash(); }
    println!("state_hash: {:?}", t.elapsed() / n);
    let t = Instant::now();
    for _ in 0..n { let s2 = w.snap(); w.restore(&s2); }
    println!("snap+restore: {:?}", t.elapsed() / n);
    let t = Instant::now();
    for _ in 0..n { let _ = w.query(&tok, "balance", &[p2.to_val()]); }
    println!("query: {:?}", t.elapsed() / n);
    let t = Instant::now();
    for _ in 0..n { let c = w.call(&tok, "transfer", &[p2.to_val(), p0.to_val(), w.v(1i128)], Auth::Nobody); assert!(!c.ok); }
    println!("failing call: {:?}", t.elapsed() / n);
    let _ = its;
}
