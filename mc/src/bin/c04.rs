//! C04: ITS acts only on approved, well-formed hub messages from trusted chains.
//! Histories of trusted-chain changes and deliveries; every delivery deviates from a
//! conforming one in one respect (or none); independent payload encoder.

use axmc::explore::*;
use axmc::its::*;
use axmc::refs::*;
use axmc::world::*;
use serde::{Deserialize, Serialize};
use soroban_sdk::xdr::ScVal;
use soroban_sdk::Address;

const X: &str = "Ethereum-Sepolia";
const Y: &str = "avalanche";
const SALT1: [u8; 32] = [0x51; 32];
const D1: [u8; 32] = [0xd1; 32];
const UNKNOWN: [u8; 32] = [0x99; 32];

#[derive(Clone, Copy, Debug, PartialEq, Eq, Hash, Serialize, Deserialize)]
enum Kind {
    TransferNative,
    TransferCanonical,
    TransferWithData,
    Deploy,
    DeployWithMinter,
}

#[derive(Clone, Copy, Debug, PartialEq, Eq, Hash, Serialize, Deserialize)]
enum Dev {
    None,
    NeverApproved,
    ApprovedOtherPayload,
    ApprovedOtherId,
    ApprovedOtherSourceAddress,
    ApprovedOtherDest,
    SourceChainNotHub,
    SourceAddressNotHub,
    OuterSendToHub,
    OuterType(u8),
    InnerType(u8),
    /// a valid low byte with a non-zero high byte in the outer / inner type word
    OuterTagDirty,
    InnerTagDirty,
    OriginNeverTrusted,
    /// the origin chain named in the message is the hub's own chain, which is not a trusted origin here
    OriginHubChain,
    OriginY,
    UnknownToken,
    /// 0 = not XDR at all, 1 = XDR of a string, 2 = XDR of an address followed by a junk byte
    GarbageAddress(u8),
    /// amount word index into AMOUNT_WORDS
    Amount(u8),
    TruncateAtWord(u8),
    Trailing(u8),
    /// trailing bytes on the *inner* message inside a canonical wrapper
    InnerTrailing(u8),
    OverCustody,
    TakenId,
    /// a deployment for the id under which the canonical token T2 is registered
    TakenCanonicalId,
    EmptyName,
    EmptySymbol,
    /// a transfer of amount 0 without data that deviates in one respect: 0 = unknown token,
    /// 1 = undecodable recipient, 2 = origin chain never trusted
    ZeroAmountAnd(u8),
}

#[derive(Clone, Debug, Serialize, Deserialize)]
enum Act {
    SetTrusted(u8),
    RemoveTrusted(u8),
    Deliver(Kind, Dev),
    /// two deviations at once (thorough tier, from states reached by trust changes only)
    Deliver2(Kind, Dev, Dev),
    Advance(u32),
}

#[derive(Clone, Hash)]
struct Model {
    advances: u8,
    trusted: [bool; 2],
    /// deliveries (by message id) already executed
    executed: Vec<String>,
    t1_minted: i128,
    t2_released: i128,
    app_t1: i128,
    d1_deployed: bool,
    d1_minter: bool,
}

struct Ctx {
    iw: ItsWorld,
    t1_id: [u8; 32],
    t1: Address,
    t2_id: [u8; 32],
    d1: Address,
}

struct C04 {
    thorough: bool,
}

fn amount_word(i: u8) -> [u8; 32] {
    let mut w = [0u8; 32];
    match i {
        0 => w[16] = 0x80,                       // 2^127
        1 => w[15] = 1,                          // 2^128
        2 => { w[15] = 1; w[30] = 0x03; w[31] = 0xe8; } // 2^128 + 1000
        3 => { w[7] = 1; w[31] = 5; }            // 2^192 + 5
        4 => w[0] = 0x80,                        // 2^255
        5 => { w[8] = 1; w[31] = 7; }            // 2^184 + 7
        7 => { w[7] = 1; w[15] = 1; w[30] = 0x03; w[31] = 0xe8; } // 2^192 + 2^128 + 1000: equal upper limbs
        8 => { w[0..16].copy_from_slice(&[0xff; 16]); w[31] = 9; } // all upper bits set, low part 9
        _ => w = [0xff; 32],
    }
    w
}

impl C04 {
    fn base_msg(&self, ctx: &Ctx, k: Kind) -> RMsg {
        let iw = &ctx.iw;
        let u1 = addr_xdr(&iw.sc(&iw.users[1]));
        let sender = b"0xSenderOnOrigin".to_vec();
        match k {
            Kind::TransferNative => RMsg::Transfer { token_id: ctx.t1_id, source_address: sender, destination_address: u1, amount: 10, data: vec![] },
            Kind::TransferCanonical => RMsg::Transfer { token_id: ctx.t2_id, source_address: sender, destination_address: u1, amount: 10, data: vec![] },
            Kind::TransferWithData => RMsg::Transfer {
                token_id: ctx.t1_id,
                source_address: sender,
                destination_address: addr_xdr(&iw.sc(&iw.app)),
                amount: 5,
                data: b"app-data".to_vec(),
            },
            Kind::Deploy => RMsg::Deploy { token_id: D1, name: b"Remote".to_vec(), symbol: b"RMT".to_vec(), decimals: 6, minter: vec![] },
            Kind::DeployWithMinter => RMsg::Deploy { token_id: D1, name: b"Remote".to_vec(), symbol: b"RMT".to_vec(), decimals: 6, minter: u1 },
        }
    }

    /// (payload delivered, origin chain named in it, applicable?)
    fn build(&self, ctx: &Ctx, k: Kind, d: Dev) -> Option<(Vec<u8>, String)> {
        self.build_n(ctx, k, &[d])
    }

    /// class of a deviation: two deviations of the same class do not compose
    fn class(d: Dev) -> u8 {
        match d {
            Dev::None => 0,
            Dev::NeverApproved | Dev::ApprovedOtherPayload | Dev::ApprovedOtherId | Dev::ApprovedOtherSourceAddress | Dev::ApprovedOtherDest => 1,
            Dev::SourceChainNotHub | Dev::SourceAddressNotHub => 2,
            Dev::OuterSendToHub | Dev::OuterType(_) | Dev::OuterTagDirty => 3,
            Dev::InnerType(_) | Dev::InnerTagDirty => 4,
            Dev::OriginNeverTrusted | Dev::OriginHubChain | Dev::OriginY => 5,
            Dev::UnknownToken | Dev::TakenId | Dev::TakenCanonicalId => 6,
            Dev::GarbageAddress(_) => 7,
            Dev::Amount(_) | Dev::OverCustody => 8,
            Dev::TruncateAtWord(_) | Dev::Trailing(_) | Dev::InnerTrailing(_) => 9,
            Dev::EmptyName => 10,
            Dev::EmptySymbol => 11,
            Dev::ZeroAmountAnd(_) => 12,
        }
    }

    fn build_n(&self, ctx: &Ctx, k: Kind, devs: &[Dev]) -> Option<(Vec<u8>, String)> {
        let iw = &ctx.iw;
        let mut msg = self.base_msg(ctx, k);
        let mut origin = X.to_string();
        let is_transfer = matches!(k, Kind::TransferNative | Kind::TransferCanonical | Kind::TransferWithData);
        if devs.len() == 2 && (Self::class(devs[0]) == Self::class(devs[1]) || devs[0] == Dev::None || devs[1] == Dev::None) {
            return None;
        }
        for d in devs.iter().cloned() {
        match d {
            Dev::OriginNeverTrusted => origin = "polygon".into(),
            Dev::OriginHubChain => origin = HUB_CHAIN.into(),
            Dev::OriginY => origin = Y.into(),
            Dev::UnknownToken => {
                if !is_transfer { return None; }
                if let RMsg::Transfer { token_id, .. } = &mut msg { *token_id = UNKNOWN; }
            }
            Dev::GarbageAddress(g) => {
                let junk = match g {
                    0 => vec![1, 2, 3, 4, 5],
                    1 => xdr(&sstr("GAAAAAAAAAAAAAAAAAAAAAAAAAAAAAAAAAAAAAAAAAAAAAAAAAAAAWHF")),
                    _ => { let mut v = addr_xdr(&iw.sc(&iw.users[1])); v.push(0); v }
                };
                match &mut msg {
                    RMsg::Transfer { destination_address, .. } => *destination_address = junk,
                    RMsg::Deploy { minter, .. } => {
                        if k != Kind::DeployWithMinter { return None; }
                        *minter = junk
                    }
                }
            }
            Dev::OverCustody => {
                if k != Kind::TransferCanonical { return None; }
                if let RMsg::Transfer { amount, .. } = &mut msg { *amount = 21; }
            }
            Dev::TakenId => {
                if is_transfer { return None; }
                if let RMsg::Deploy { token_id, .. } = &mut msg { *token_id = ctx.t1_id; }
            }
            Dev::TakenCanonicalId => {
                if is_transfer { return None; }
                if let RMsg::Deploy { token_id, .. } = &mut msg { *token_id = ctx.t2_id; }
            }
            Dev::EmptyName => {
                if k != Kind::Deploy { return None; }
                if let RMsg::Deploy { name, .. } = &mut msg { name.clear(); }
            }
            Dev::EmptySymbol => {
                if k != Kind::Deploy { return None; }
                if let RMsg::Deploy { symbol, .. } = &mut msg { symbol.clear(); }
            }
            Dev::Amount(_) => { if !is_transfer { return None; } }
            Dev::ZeroAmountAnd(z) => {
                if !matches!(k, Kind::TransferNative | Kind::TransferCanonical) { return None; }
                if let RMsg::Transfer { token_id, destination_address, amount, .. } = &mut msg {
                    *amount = 0;
                    match z {
                        0 => *token_id = UNKNOWN,
                        1 => *destination_address = vec![1, 2, 3, 4, 5],
                        _ => origin = "polygon".into(),
                    }
                }
            }
            _ => {}
        }
        }
        let hub = if devs.contains(&Dev::OuterSendToHub) {
            RHub::SendToHub { chain: origin.as_bytes().to_vec(), msg: msg.clone() }
        } else {
            RHub::ReceiveFromHub { chain: origin.as_bytes().to_vec(), msg: msg.clone() }
        };
        let mut p = abi_hub(&hub);
        for d in devs.iter().cloned() {
        if let Dev::InnerTrailing(t) = d {
            let mut inner = abi_msg(&msg);
            match t {
                0 => inner.push(0),
                1 => inner.extend([0u8; 32]),
                _ => inner.extend([0xabu8; 32]),
            }
            p = abi_params(&[Tok::Word(word_u128(4)), Tok::Dyn(origin.as_bytes().to_vec()), Tok::Dyn(inner)]);
        }
        // locate the inner message: third head word is the offset of `bytes message`
        if p.len() < 96 { continue; }
        let off = u64::from_be_bytes(p[88..96].try_into().unwrap()) as usize;
        let inner = off + 32;
        if inner + 160 > p.len() && matches!(d, Dev::InnerType(_) | Dev::InnerTagDirty | Dev::Amount(_)) { return None; }
        match d {
            Dev::OuterType(t) => p[0..32].copy_from_slice(&word_u128(t as u128)),
            Dev::OuterTagDirty => p[0] = 1,
            Dev::InnerTagDirty => p[inner + 30] = 1,
            Dev::InnerType(t) => p[inner..inner + 32].copy_from_slice(&word_u128(t as u128)),
            Dev::Amount(i) => p[inner + 128..inner + 160].copy_from_slice(&amount_word(i)),
            Dev::TruncateAtWord(kw) => {
                let n = kw as usize * 32;
                if n >= p.len() { return None; }
                p.truncate(n);
            }
            Dev::Trailing(t) => match t {
                0 => p.push(0),
                1 => p.extend([0u8; 32]),
                _ => p.extend([0xabu8; 32]),
            },
            _ => {}
        }
        }
        Some((p, origin))
    }

    fn devs(&self) -> Vec<Dev> {
        let mut v = vec![
            Dev::None,
            Dev::NeverApproved,
            Dev::ApprovedOtherPayload,
            Dev::ApprovedOtherId,
            Dev::ApprovedOtherSourceAddress,
            Dev::ApprovedOtherDest,
            Dev::SourceChainNotHub,
            Dev::SourceAddressNotHub,
            Dev::OuterSendToHub,
            Dev::OriginNeverTrusted,
            Dev::OriginHubChain,
            Dev::OriginY,
            Dev::UnknownToken,
            Dev::OverCustody,
            Dev::TakenId,
            Dev::TakenCanonicalId,
            Dev::EmptyName,
            Dev::EmptySymbol,
        ];
        for t in [0u8, 1, 2, 5, 255] { v.push(Dev::OuterType(t)); }
        v.push(Dev::OuterTagDirty);
        v.push(Dev::InnerTagDirty);
        for t in [2u8, 3, 4, 5, 255] { v.push(Dev::InnerType(t)); }
        for g in 0..3u8 { v.push(Dev::GarbageAddress(g)); }
        for a in 0..9u8 { v.push(Dev::Amount(a)); }
        for k in 0..24u8 { v.push(Dev::TruncateAtWord(k)); }
        for t in 0..3u8 { v.push(Dev::Trailing(t)); }
        for t in 0..3u8 { v.push(Dev::InnerTrailing(t)); }
        for z in 0..3u8 { v.push(Dev::ZeroAmountAnd(z)); }
        v
    }
}

const KINDS: [Kind; 5] = [Kind::TransferNative, Kind::TransferCanonical, Kind::TransferWithData, Kind::Deploy, Kind::DeployWithMinter];

impl Scenario for C04 {
    type Ctx = Ctx;
    type M = Model;
    type A = Act;

    fn id(&self) -> &'static str { "C04" }
    fn n_configs(&self) -> usize { 1 }
    fn config_label(&self, _: usize) -> String {
        "ITS with a service-deployed token T1, a canonical token T2 (custody 20: two conforming releases of 10 empty it exactly), origin chain X trusted".into()
    }
    fn world<'a>(&self, ctx: &'a Ctx) -> &'a World { &ctx.iw.w }

    fn build(&self, _c: usize) -> (Ctx, Model) {
        let iw = ItsWorld::new("stellar", 2, 1);
        let w = &iw.w;
        let env = &w.env;
        let t1_id = interchain_token_id("stellar", &iw.sc(&iw.users[0]), &SALT1);
        let t1 = iw.seat_token(&t1_id);
        let d1 = iw.seat_token(&D1);
        assert!(iw.set_trusted(X).ok);
        let u0 = [iw.users[0].clone()];
        let c = w.call(
            &iw.its,
            "deploy_interchain_token",
            &[
                iw.users[0].to_val(),
                to_val(env, &sbytes(&SALT1)),
                to_val(env, &metadata_scval(b"Token One", b"ONE", 7)),
                w.v(1000i128),
                to_val(env, &ScVal::Void),
            ],
            Auth::By(&u0),
        );
        assert!(c.ok, "setup deploy failed: {}", c.err);
        let c = w.call(&iw.its, "register_canonical_token", &[iw.assets[0].to_val()], Auth::Nobody);
        assert!(c.ok);
        let t2_id = canonical_token_id("stellar", &iw.sc(&iw.assets[0]));
        // a native seat behind the canonical id too: only a broken tree would deploy a token there
        iw.seat_token(&t2_id);
        iw.mint_asset(&iw.assets[0], &iw.its, 20);
        (
            Ctx { iw, t1_id, t1, t2_id, d1 },
            Model { advances: 0, trusted: [true, false], executed: vec![], t1_minted: 0, t2_released: 0, app_t1: 0, d1_deployed: false, d1_minter: false },
        )
    }

    fn actions(&self, ctx: &Ctx, m: &Model) -> Vec<Act> {
        let mut v = vec![Act::RemoveTrusted(0), Act::SetTrusted(0), Act::SetTrusted(1), Act::RemoveTrusted(1)];
        if m.advances < 1 {
            v.push(Act::Advance(20));
            // ~405 days: longer than the maximum entry TTL, so every temporary entry is gone by then, while
            // the world's keeper (World::set_seq) keeps instance / persistent entries alive
            v.push(Act::Advance(7_000_000));
        }
        for k in KINDS {
            for d in self.devs() {
                if !self.thorough && k == Kind::TransferWithData && matches!(d, Dev::TruncateAtWord(_)) {
                    continue;
                }
                if self.build(ctx, k, d).is_some() {
                    v.push(Act::Deliver(k, d));
                }
            }
        }
        // every pair of deviations of different classes (thorough), from the states that only
        // trust changes and time have touched
        if self.thorough && m.executed.is_empty() && !m.d1_deployed {
            // a reduced alphabet for the pairs: one representative per numeric family
            let devs: Vec<Dev> = self
                .devs()
                .into_iter()
                .filter(|d| match d {
                    Dev::OuterType(t) => *t == 0 || *t == 5,
                    Dev::InnerType(t) => *t == 2 || *t == 255,
                    Dev::Amount(i) => *i == 0 || *i == 2,
                    Dev::TruncateAtWord(k) => *k == 3 || *k == 8,
                    Dev::Trailing(t) | Dev::InnerTrailing(t) => *t == 1,
                    Dev::GarbageAddress(g) => *g == 1,
                    Dev::ZeroAmountAnd(z) => *z == 0,
                    _ => true,
                })
                .collect();
            for k in [Kind::TransferNative, Kind::TransferCanonical, Kind::DeployWithMinter] {
                for (i, d1) in devs.iter().enumerate() {
                    for d2 in devs.iter().skip(i + 1) {
                        if self.build_n(ctx, k, &[*d1, *d2]).is_some() {
                            v.push(Act::Deliver2(k, *d1, *d2));
                        }
                    }
                }
            }
        }
        v
    }

    fn step(&self, ctx: &Ctx, m: &mut Model, a: &Act, out: &mut StepOut) {
        let iw = &ctx.iw;
        let w = &iw.w;
        match a {
            Act::Advance(n) => {
                out.kind = "advance";
                out.accepted = true;
                w.set_seq(w.seq() + n);
                w.set_time(w.now() + 5 * *n as u64);
                m.advances += 1;
            }
            Act::SetTrusted(i) | Act::RemoveTrusted(i) => {
                let set = matches!(a, Act::SetTrusted(_));
                out.kind = "trust";
                let chain = if *i == 0 { X } else { Y };
                let c = if set { iw.set_trusted(chain) } else { iw.remove_trusted(chain) };
                let want = m.trusted[*i as usize] != set;
                out.accepted = c.ok;
                out.expect(c.ok == want, "trust.outcome", || format!("{:?}: ok={} model {}", a, c.ok, want));
                if c.ok { m.trusted[*i as usize] = set; }
            }
            Act::Deliver(..) | Act::Deliver2(..) => {
                let (k, devs): (&Kind, Vec<Dev>) = match a {
                    Act::Deliver(k, d) => (k, vec![*d]),
                    Act::Deliver2(k, d1, d2) => (k, vec![*d1, *d2]),
                    _ => unreachable!(),
                };
                let has = |x: Dev| devs.contains(&x);
                out.kind = if devs == vec![Dev::None] { "deliver-conforming" } else { "deliver-deviating" };
                let (payload, origin) = self.build_n(ctx, *k, &devs).unwrap();
                let id = format!("{:?}-{:?}", k, devs);
                let pre = w.snap();
                // what the gateway approves
                // what is delivered
                let x_chain: &str = if has(Dev::SourceChainNotHub) { X } else { HUB_CHAIN };
                let x_src: &str = if has(Dev::SourceAddressNotHub) { "not-the-hub" } else { HUB_ADDRESS };
                // what the gateway approves: the delivery itself, unless an approval deviation applies
                let mut a_payload = payload.clone();
                let mut a_id = id.clone();
                let mut a_src: &str = x_src;
                let mut a_dest: &Address = &iw.its;
                let a_chain: &str = x_chain;
                if has(Dev::ApprovedOtherPayload) {
                    let n = a_payload.len();
                    if n == 0 { a_payload.push(1) } else { a_payload[n - 1] ^= 1 }
                }
                if has(Dev::ApprovedOtherId) { a_id = format!("{}-other", id); }
                if has(Dev::ApprovedOtherSourceAddress) { a_src = "HUB-ADDRESS"; } // differs from the hub address in letter case only
                if has(Dev::ApprovedOtherDest) { a_dest = &iw.gas; }
                let approved = !has(Dev::NeverApproved);
                if approved {
                    let c = iw.approve_delivery(a_chain, &a_id, a_src, a_dest, &a_payload);
                    assert!(c.ok, "harness approval failed: {}", c.err);
                }
                let h_before = w.state_hash();
                let call = iw.execute(&iw.its, x_chain, &id, x_src, &payload);
                out.accepted = call.ok;

                // model: is this a conforming, effective delivery right now?
                let origin_trusted = match origin.as_str() { X => m.trusted[0], Y => m.trusted[1], _ => false };
                let benign = |x: &Dev| matches!(x, Dev::None | Dev::OriginY);
                let conforming_shape = devs.iter().all(benign);
                // what is wrong with the delivery, for the violation signature
                let wrong: Vec<String> = devs.iter().filter(|x| !benign(x)).map(strip).collect();
                let wrong = if wrong.is_empty() { "None".to_string() } else { wrong.join("+") };
                let fresh = !m.executed.contains(&id);
                let precond = match k {
                    Kind::Deploy | Kind::DeployWithMinter => !m.d1_deployed,
                    Kind::TransferCanonical => 20 - m.t2_released >= 10,
                    _ => true,
                };
                let want = conforming_shape && origin_trusted && fresh && precond;
                let mut effective = want;
                if call.ok != want {
                    let sig = if call.ok {
                        format!("execute.accepted-nonconforming:{}", wrong)
                    } else {
                        format!("execute.rejected-conforming:{}", wrong)
                    };
                    // the single known defect: the hub *address* is never compared. The model
                    // follows the implementation there (a delivery that conforms in every other
                    // respect takes effect), so that exploration continues past it.
                    if call.ok && wrong == "SourceAddressNotHub" && origin_trusted && fresh && precond {
                        out.adopted = true;
                        effective = true;
                    }
                    out.fail(sig, format!(
                        "{:?} with trusted={:?} executed-before={} -> ok={} ({}), model says {}",
                        a, m.trusted, !fresh, call.ok, call.err, want
                    ));
                    if !out.adopted { return; }
                } else {
                    out.checks += 1;
                }
                if !call.ok {
                    out.expect(h_before == w.state_hash(), "execute.rejected-but-changed-state", || format!("{:?}", a));
                    if approved && fresh {
                        let still = iw.is_approved(a_chain, &a_id, a_src, a_dest, &a_payload);
                        out.expect(still == Some(true), "execute.rejected-but-approval-consumed", || format!("{:?}: approval record {:?}", a, still));
                    }
                    // a rejected delivery (and the harness's approval for it) is rolled back, so
                    // that rejected deliveries do not multiply states
                    w.restore(&pre);
                    return;
                }
                if !effective { return; }
                // exactly once: re-approving and re-delivering the same message must be refused, right
                // away and also after 20 ledgers and after 405 days (tried on a snapshot)
                for wait in [0u32, 20, 7_000_000] {
                    let snap = w.snap();
                    if wait > 0 {
                        w.set_seq(w.seq() + wait);
                        w.set_time(w.now() + 5 * wait as u64);
                    }
                    let re = iw.approve_delivery(a_chain, &a_id, a_src, a_dest, &a_payload);
                    let again = iw.execute(&iw.its, x_chain, &id, x_src, &payload);
                    w.restore(&snap);
                    out.expect(re.ok && !again.ok, "execute.replay-accepted", || {
                        format!("{:?}: re-approved and delivered again {} ledgers later -> ok={}", a, wait, again.ok)
                    });
                }
                // effects, exactly as announced, once
                m.executed.push(id.clone());
                let ex = iw.is_executed(x_chain, &id);
                out.expect(ex == Some(true), "execute.accepted-but-not-marked-executed", || format!("{:?}", ex));
                let u1 = iw.sc(&iw.users[1]);
                match k {
                    Kind::TransferNative | Kind::TransferCanonical | Kind::TransferWithData => {
                        let (tid, dest, amt, data): ([u8; 32], ScVal, i128, ScVal) = match k {
                            Kind::TransferNative => { m.t1_minted += 10; (ctx.t1_id, ScVal::Address(u1.clone()), 10, ScVal::Void) }
                            Kind::TransferCanonical => { m.t2_released += 10; (ctx.t2_id, ScVal::Address(u1.clone()), 10, ScVal::Void) }
                            _ => { m.t1_minted += 5; m.app_t1 += 5; (ctx.t1_id, w.sc_addr_val(&iw.app), 5, sbytes(b"app-data")) }
                        };
                        let mut must = vec![sstr(&origin), sbytes(&tid), sbytes(b"0xSenderOnOrigin"), dest, si128(amt)];
                        if data != ScVal::Void { must.push(data); }
                        let r = match_events(
                            &call.events,
                            &[EvPat { contract: iw.sc(&iw.its), name: "interchain_transfer_received", must }],
                            &["interchain_transfer_received", "interchain_token_deployed"],
                        );
                        out.expect(r.is_ok(), "execute.transfer-event", || truncate(&r.unwrap_err(), 500));
                        if *k == Kind::TransferWithData {
                            // the app is called exactly once, with exactly the announced arguments
                            let r = match_events(
                                &call.events,
                                &[EvPat {
                                    contract: iw.sc(&iw.app),
                                    name: "app_executed",
                                    must: vec![sstr(&origin), sstr(&id), sbytes(b"0xSenderOnOrigin"), sbytes(b"app-data"), sbytes(&ctx.t1_id), w.sc_addr_val(&ctx.t1), si128(5)],
                                }],
                                &["app_executed"],
                            );
                            out.expect(r.is_ok(), "execute.app-call-arguments", || truncate(&r.unwrap_err(), 600));
                        }
                    }
                    Kind::Deploy | Kind::DeployWithMinter => {
                        m.d1_deployed = true;
                        m.d1_minter = *k == Kind::DeployWithMinter;
                        let r = match_events(
                            &call.events,
                            &[EvPat {
                                contract: iw.sc(&iw.its),
                                name: "interchain_token_deployed",
                                must: vec![sbytes(&D1), w.sc_addr_val(&ctx.d1), sstr("Remote"), sstr("RMT"), su32(6)],
                            }],
                            &["interchain_transfer_received", "interchain_token_deployed"],
                        );
                        out.expect(r.is_ok(), "execute.deploy-event", || truncate(&r.unwrap_err(), 500));
                    }
                }
            }
        }
    }

    fn probe(&self, ctx: &Ctx, m: &Model, out: &mut StepOut) {
        let iw = &ctx.iw;
        let w = &iw.w;
        let env = &w.env;
        let u0 = &iw.users[0];
        let u1 = &iw.users[1];
        let bal = |t: &Address, who: &Address| iw.balance(t, who);
        out.expect(bal(&ctx.t1, u0) == Some(1000), "probe.t1-u0", || format!("{:?}", bal(&ctx.t1, u0)));
        let t1_u1 = m.t1_minted - m.app_t1;
        out.expect(bal(&ctx.t1, u1) == Some(t1_u1), "probe.t1-u1", || format!("{:?} vs {}", bal(&ctx.t1, u1), t1_u1));
        out.expect(bal(&ctx.t1, &iw.app) == Some(m.app_t1), "probe.t1-app", || format!("{:?} vs {}", bal(&ctx.t1, &iw.app), m.app_t1));
        out.expect(bal(&ctx.t1, &iw.its) == Some(0), "probe.t1-its", || format!("{:?}", bal(&ctx.t1, &iw.its)));
        let a = &iw.assets[0];
        out.expect(bal(a, &iw.its) == Some(20 - m.t2_released), "probe.custody", || format!("{:?} vs {}", bal(a, &iw.its), 20 - m.t2_released));
        out.expect(bal(a, u1) == Some(m.t2_released), "probe.t2-u1", || format!("{:?} vs {}", bal(a, u1), m.t2_released));
        // registry
        for (tid, want) in [
            (ctx.t1_id, Some(w.sc_addr_val(&ctx.t1))),
            (ctx.t2_id, Some(w.sc_addr_val(a))),
            (D1, if m.d1_deployed { Some(w.sc_addr_val(&ctx.d1)) } else { None }),
            (UNKNOWN, None),
        ] {
            let q = w.query(&iw.its, "token_address", &[to_val(env, &sbytes(&tid))]);
            out.expect(q == want, "probe.registry", || format!("token {}: {:?} vs {:?}", hex(&tid[..4]), q, want));
        }
        if m.d1_deployed {
            let q = w.query(&ctx.d1, "is_minter", &[u1.to_val()]);
            out.expect(q == Some(ScVal::Bool(m.d1_minter)), "probe.d1-minter", || format!("{:?} vs {}", q, m.d1_minter));
            let q = w.query(&ctx.d1, "name", &[]);
            out.expect(q == Some(sstr("Remote")), "probe.d1-name", || format!("{:?}", q));
        }
        for (i, c) in [X, Y].iter().enumerate() {
            let q = w.query(&iw.its, "is_trusted_chain", &[to_val(env, &sstr(c))]);
            out.expect(q == Some(ScVal::Bool(m.trusted[i])), "probe.trusted", || format!("{}: {:?} vs {}", c, q, m.trusted[i]));
        }
    }

    fn sweep_targets(&self, ctx: &Ctx) -> (Vec<(Address, &'static str, &'static [&'static str])>, Vec<Address>) {
        let iw = &ctx.iw;
        (
            vec![
                (iw.its.clone(), "/repo/contracts/interchain-token-service/src", &axmc::inventory::ITS_KNOWN[..]),
                (iw.gw.clone(), "/repo/contracts/axelar-gateway/src", &axmc::inventory::GATEWAY_KNOWN[..]),
                (iw.gas.clone(), "/repo/contracts/axelar-gas-service/src", &axmc::inventory::GAS_KNOWN[..]),
            ],
            vec![iw.users[0].clone(), iw.users[1].clone(), iw.its.clone()],
        )
    }

    fn must_succeed_kinds(&self) -> Vec<&'static str> {
        vec!["deliver-conforming", "trust"]
    }
}

/// signature granularity: deviation kind without its numeric parameter
fn strip(d: &Dev) -> String {
    let s = format!("{:?}", d);
    match s.find('(') {
        Some(i) => s[..i].to_string(),
        None => s,
    }
}

fn main() {
    main_for(|tier| {
        let thorough = tier == "thorough";
        let mut o = Opts::new(tier, if thorough { 5 } else { 3 });
        o.min_depth = 2;
        o.rule = "histories over {set/remove trusted chain X, Y} and deliveries; a delivery = one of 5 conforming messages (transfer to service-deployed token, to canonical token, with data to an app, remote deploy without/with minter) with ONE deviation from {none, never approved, approved with other payload / id / source address / destination contract, source chain not the hub, source address not the hub address, SendToHub wrapper, outer type 0/1/2/5/255, inner type 2/3/4/5/255, a dirty high byte in the outer / inner type word, origin never trusted, origin = the hub's own chain name (never trusted), origin Y (trusted only after set), unknown token, 3 kinds of undecodable recipient/minter bytes, a zero-amount transfer without data that names an unknown token / an undecodable recipient / a never-trusted origin, amount words 2^127, 2^128, 2^128+1000, 2^184+7, 2^192+5, 2^255, ff..ff, truncation at every 32-byte word, 3 kinds of trailing bytes on the payload and on the inner message, over-custody amount, taken token id, empty name, empty symbol}; delivering the same message twice arises as a path; thorough: every PAIR of deviations of different classes from the states reached by trust changes; payloads come from the independent ABI encoder".into();
        (C04 { thorough }, o)
    });
}
