//! C03: rotation installs only well-formed sets, authorised by the latest signers; failed
//! rotations and failed constructions leave nothing behind. Construction goes through a
//! factory (real `deploy_v2`), so a failing constructor is rolled back like any transaction.

use axmc::aux::{Factory, Principal};
use axmc::explore::*;
use axmc::gw::*;
use axmc::refs::*;
use axmc::world::*;
use serde::{Deserialize, Serialize};
use soroban_sdk::xdr::ScVal;
use soroban_sdk::{Address, Val};

const MAX: u128 = u128::MAX;

struct Ctx {
    w: World,
    gw: Address,
    factory: Address,
    keys: Keys,
    operator: Address,
    owner: Address,
    retention: u64,
    cands: Vec<RawSet>,
    /// signer spec able to sign for candidate i (None for sets nobody can sign for)
    specs: Vec<Option<SetSpec>>,
}

// candidate indices
const I0: usize = 0;
const I1: usize = 1;
const A: usize = 2;
const B: usize = 3;
const C: usize = 4;
const FIRST_MALFORMED: usize = 5;
const ZERO_KEY: usize = 8; // outcome unspecified by the statement
const N_CANDS: usize = 17;

fn candidates(keys: &Keys) -> (Vec<RawSet>, Vec<Option<SetSpec>>) {
    let sp = |s: &[(usize, u128)], t: u128, n: u8| SetSpec { signers: s.to_vec(), threshold: t, nonce: n };
    let good = vec![
        sp(&[(2, 1)], 1, 9),                  // I0
        sp(&[(1, 3), (3, 4)], 5, 10),         // I1
        sp(&[(0, 1)], 1, 1),                  // A
        sp(&[(0, 1), (1, 2)], 2, 2),          // B
        sp(&(0..33).map(|i| (i, 1u128)).collect::<Vec<_>>(), 33, 3),  // C: 33 signers, threshold == total (boundary, well-formed)
    ];
    let mut cands: Vec<RawSet> = good.iter().map(|s| s.raw(keys)).collect();
    let mut specs: Vec<Option<SetSpec>> = good.into_iter().map(Some).collect();
    let k = &keys.pk;
    let mal = vec![
        RawSet { signers: vec![], threshold: 1, nonce: [20; 32] },                          // 5 empty
        RawSet { signers: vec![(k[0], 1), (k[0], 1)], threshold: 2, nonce: [21; 32] },      // 6 adjacent duplicate key
        RawSet { signers: vec![(k[1], 1), (k[0], 1)], threshold: 1, nonce: [22; 32] },      // 7 descending keys
        RawSet { signers: vec![([0; 32], 1)], threshold: 1, nonce: [23; 32] },              // 8 all-zero key (unspecified)
        RawSet { signers: vec![(k[0], 0), (k[1], 1)], threshold: 1, nonce: [24; 32] },      // 9 zero weight
        RawSet { signers: vec![(k[0], MAX), (k[1], 1)], threshold: 1, nonce: [25; 32] },    // 10 weights sum past u128
        RawSet { signers: vec![(k[0], 1), (k[1], 1)], threshold: 0, nonce: [26; 32] },      // 11 threshold 0
        RawSet { signers: vec![(k[0], 1), (k[1], 1)], threshold: 3, nonce: [27; 32] },      // 12 threshold total+1
        // the sum wraps at the first / in the middle and the wrapped total still reaches the threshold
        RawSet { signers: vec![(k[0], MAX), (k[1], 2), (k[2], 3)], threshold: 4, nonce: [28; 32] }, // 13
        RawSet { signers: vec![(k[0], 2), (k[1], MAX), (k[2], 3), (k[3], 1)], threshold: 5, nonce: [29; 32] }, // 14
        // a repeated key whose weights ascend (a comparison of whole entries instead of keys would call this increasing), at the front and at the end
        RawSet { signers: vec![(k[0], 1), (k[0], 2)], threshold: 2, nonce: [30; 32] },      // 15
        RawSet { signers: vec![(k[0], 1), (k[1], 1), (k[1], 2)], threshold: 2, nonce: [31; 32] }, // 16
    ];
    for m in mal {
        cands.push(m);
        specs.push(None);
    }
    assert_eq!(cands.len(), N_CANDS);
    (cands, specs)
}

#[derive(Clone, Copy, Debug, PartialEq, Eq, Hash, Serialize, Deserialize)]
enum Src {
    Latest,
    Older,
    Outdated,
    NeverInstalled,
    LatestForOtherCandidate,
    /// the latest set signs keccak(XDR((ApproveMessages, candidate))) instead of the rotation hash
    LatestUnderApproveCommand,
    /// the latest set with its first entry listed twice (both signed)
    LatestWithRepeatedEntry,
    /// the latest set; only its first signer (whose weight is below the threshold) signs genuinely,
    /// every other slot carries a signature made with the first signer's key
    LatestFirstGenuineRestForeign,
}

#[derive(Clone, Copy, Debug, PartialEq, Eq, Hash, Serialize, Deserialize)]
enum Byp {
    No,
    Operator,
    NoAuth,
    OwnerAuth,
}

#[derive(Clone, Debug, Serialize, Deserialize)]
enum Act {
    Construct(Vec<usize>),
    Rotate { cand: usize, src: Src, byp: Byp },
    Advance(u32),
}

#[derive(Clone, Hash)]
struct Model {
    advances: u8,
    deployed: bool,
    installed: Vec<usize>,
}

struct C03 {
    thorough: bool,
    /// one configuration per retention setting
    retentions: Vec<u64>,
}


impl C03 {
    fn init_lists(&self) -> Vec<Vec<usize>> {
        let mut v = vec![vec![I0, I1], vec![], vec![I0], vec![I0, I0], vec![I0, I1, I0], vec![I0, I1, A], vec![A, A, B]];
        for m in FIRST_MALFORMED..N_CANDS {
            v.push(vec![I0, m]);
            v.push(vec![m]);
            if self.thorough {
                v.push(vec![m, I0]);
                v.push(vec![I0, I1, m]);
            }
        }
        v
    }
    fn ctor_args(&self, ctx: &Ctx, list: &[usize]) -> Vec<Val> {
        let env = &ctx.w.env;
        let sets = svec(list.iter().map(|i| ctx.cands[*i].scval()).collect());
        vec![
            ctx.owner.to_val(),
            ctx.operator.to_val(),
            to_val(env, &sbytes(&DOMAIN)),
            ctx.w.v(0u64),
            ctx.w.v(ctx.retention),
            to_val(env, &sets),
        ]
    }
}

impl Scenario for C03 {
    type Ctx = Ctx;
    type M = Model;
    type A = Act;

    fn id(&self) -> &'static str {
        "C03"
    }
    fn n_configs(&self) -> usize {
        self.retentions.len()
    }
    fn config_label(&self, c: usize) -> String {
        format!("factory + gateway seat, retention {}, delay 0", self.retentions[c])
    }
    fn world<'a>(&self, ctx: &'a Ctx) -> &'a World {
        &ctx.w
    }

    fn build(&self, c: usize) -> (Ctx, Model) {
        let retention = self.retentions[c];
        let w = World::new();
        let env = &w.env;
        let owner = env.register(Principal, ());
        let operator = env.register(Principal, ());
        let factory = env.register(Factory, ());
        let keys = Keys::new(33);
        let (cands, specs) = candidates(&keys);
        // native seat at the address the factory will deploy to
        let salt = [0x5a; 32];
        let gw_sc = derive_contract_id(&w.sc_addr(&factory), &salt);
        let gw = Address::try_from_val(env, &to_val(env, &ScVal::Address(gw_sc))).unwrap();
        register_gateway(&w, Some(&gw), &owner, &operator, &DOMAIN, 0, 0, &[cands[I0].clone()]);
        w.wipe_contract(&gw);
        assert!(!w.has_instance(&gw));
        (
            Ctx { w, gw, factory, keys, operator, owner, retention, cands, specs },
            Model { advances: 0, deployed: false, installed: vec![] },
        )
    }

    fn actions(&self, _ctx: &Ctx, m: &Model) -> Vec<Act> {
        if !m.deployed {
            return self.init_lists().into_iter().map(Act::Construct).collect();
        }
        let mut v = vec![];
        if m.advances < 1 {
            v.push(Act::Advance(20));
            // ~405 days: longer than the maximum entry TTL, so every temporary entry is gone by then, while
            // the world's keeper (World::set_seq) keeps instance / persistent entries alive
            v.push(Act::Advance(7_000_000));
        }
        for cand in [A, B, C, I0, I1] {
            for src in [Src::Latest, Src::Older, Src::Outdated, Src::NeverInstalled, Src::LatestForOtherCandidate, Src::LatestUnderApproveCommand, Src::LatestWithRepeatedEntry, Src::LatestFirstGenuineRestForeign] {
                for byp in [Byp::No, Byp::Operator, Byp::NoAuth, Byp::OwnerAuth] {
                    if byp == Byp::OwnerAuth && src != Src::Older {
                        continue;
                    }
                    v.push(Act::Rotate { cand, src, byp });
                }
            }
        }
        for cand in FIRST_MALFORMED..N_CANDS {
            for byp in [Byp::No, Byp::Operator] {
                v.push(Act::Rotate { cand, src: Src::Latest, byp });
            }
        }
        v
    }

    fn step(&self, ctx: &Ctx, m: &mut Model, a: &Act, out: &mut StepOut) {
        let w = &ctx.w;
        let env = &w.env;
        let h0 = w.state_hash();
        match a {
            Act::Advance(n) => {
                out.kind = "advance";
                out.accepted = true;
                w.set_seq(w.seq() + n);
                w.set_time(w.now() + 5 * *n as u64);
                m.advances += 1;
            }
            Act::Construct(list) => {
                out.kind = "construct";
                let args = self.ctor_args(ctx, list);
                let argv = soroban_sdk::Vec::<Val>::from_slice(env, &args);
                let call = w.call(
                    &ctx.factory,
                    "deploy",
                    &[
                        to_val(env, &sbytes(&sha256(b""))),
                        to_val(env, &sbytes(&[0x5a; 32])),
                        argv.to_val(),
                    ],
                    Auth::Nobody,
                );
                out.accepted = call.ok;
                let mut distinct = true;
                for (i, x) in list.iter().enumerate() {
                    if list[..i].contains(x) {
                        distinct = false;
                    }
                }
                let all_wf = list.iter().all(|i| ctx.cands[*i].well_formed());
                let has_zero_key = list.contains(&ZERO_KEY);
                let want = !list.is_empty() && all_wf && distinct;
                if !has_zero_key {
                    out.expect(call.ok == want, "construct.outcome", || {
                        format!("construction with initial sets {:?}: ok={} ({}), model says {}", list, call.ok, call.err, want)
                    });
                }
                if call.ok {
                    m.deployed = true;
                    m.installed = list.clone();
                    // one signers_rotated event per installed set, in order
                    let expected: Vec<EvPat> = list
                        .iter()
                        .enumerate()
                        .map(|(i, c)| EvPat {
                            contract: w.sc_addr(&ctx.gw),
                            name: "signers_rotated",
                            must: vec![su64(i as u64 + 1), sbytes(&ctx.cands[*c].hash())],
                        })
                        .collect();
                    let r = match_events(&call.events, &expected, &["signers_rotated"]);
                    out.expect(r.is_ok(), "construct.events", || r.unwrap_err());
                } else {
                    out.expect(!w.has_instance(&ctx.gw), "construct.failed-but-left-instance", || format!("{:?}", list));
                    out.expect(h0 == w.state_hash(), "construct.failed-but-changed-state", || format!("{:?}", list));
                    out.prune = true;
                }
            }
            Act::Rotate { cand, src, byp } => {
                out.kind = "rotate";
                let n = m.installed.len();
                // who signs
                let never = SetSpec { signers: vec![(3, 1)], threshold: 1, nonce: 77 };
                let (signer_spec, signer_epoch): (Option<SetSpec>, Option<usize>) = match src {
                    Src::Latest | Src::LatestForOtherCandidate | Src::LatestUnderApproveCommand | Src::LatestWithRepeatedEntry | Src::LatestFirstGenuineRestForeign => (ctx.specs[m.installed[n - 1]].clone(), Some(n)),
                    Src::Older => {
                        if n >= 2 {
                            (ctx.specs[m.installed[n - 2]].clone(), Some(n - 1))
                        } else {
                            (None, None)
                        }
                    }
                    Src::Outdated => {
                        if n >= 3 {
                            (ctx.specs[m.installed[n - 3]].clone(), Some(n - 2))
                        } else {
                            (None, None)
                        }
                    }
                    Src::NeverInstalled => (Some(never), None),
                };
                let Some(spec) = signer_spec else {
                    // source not available in this state: no-op
                    out.kind = "rotate-unavailable";
                    return;
                };
                if *src == Src::LatestFirstGenuineRestForeign && (spec.signers.len() < 2 || spec.signers[0].1 >= spec.threshold) {
                    out.kind = "rotate-unavailable";
                    return;
                }
                let candidate = &ctx.cands[*cand];
                let signed_for = if *src == Src::LatestForOtherCandidate {
                    &ctx.cands[if *cand == A { B } else { A }]
                } else {
                    candidate
                };
                let data_hash = if *src == Src::LatestUnderApproveCommand {
                    keccak(&xdr(&svec(vec![senum("ApproveMessages", vec![]), signed_for.scval()])))
                } else {
                    signed_for.rotation_data_hash()
                };
                let proof = if *src == Src::LatestWithRepeatedEntry {
                    // declared set = the installed set with its first signer listed twice; every entry signs
                    // the digest built from the *installed* set's hash
                    let installed = spec.raw(&ctx.keys);
                    let mut declared = installed.clone();
                    let first = declared.signers[0];
                    declared.signers.insert(0, first);
                    let d = digest(&DOMAIN, &installed.hash(), &data_hash);
                    let mut sigs = vec![Some(sign(&ctx.keys, spec.signers[0].0, &d))];
                    sigs.extend(spec.signers.iter().map(|(k, _)| Some(sign(&ctx.keys, *k, &d))));
                    proof_scval(&declared, &sigs)
                } else if *src == Src::LatestFirstGenuineRestForeign {
                    let installed = spec.raw(&ctx.keys);
                    let d = digest(&DOMAIN, &installed.hash(), &data_hash);
                    let sigs: Vec<Option<[u8; 64]>> = spec.signers.iter().map(|_| Some(sign(&ctx.keys, spec.signers[0].0, &d))).collect();
                    proof_scval(&installed, &sigs)
                } else {
                    honest_proof(&ctx.keys, &spec, &DOMAIN, &data_hash)
                };
                let bypass = *byp != Byp::No;
                let auth: Vec<Address> = match byp {
                    Byp::Operator => vec![ctx.operator.clone()],
                    Byp::OwnerAuth => vec![ctx.owner.clone()],
                    _ => vec![],
                };
                let call = w.call(
                    &ctx.gw,
                    "rotate_signers",
                    &[to_val(env, &candidate.scval()), to_val(env, &proof), w.v(bypass)],
                    Auth::By(&auth),
                );
                out.accepted = call.ok;
                let proof_ok = match (src, signer_epoch) {
                    (Src::LatestForOtherCandidate, _) | (Src::LatestUnderApproveCommand, _) | (Src::LatestWithRepeatedEntry, _) | (Src::LatestFirstGenuineRestForeign, _) => false,
                    (_, None) => false,
                    (_, Some(e)) => match byp {
                        Byp::No => e == n,
                        Byp::Operator => ((n - e) as u64) <= ctx.retention,
                        Byp::NoAuth | Byp::OwnerAuth => false,
                    },
                };
                let want = candidate.well_formed() && !m.installed.contains(cand) && proof_ok;
                if *cand == ZERO_KEY && proof_ok {
                    // strictly-increasing keys vs. an all-zero key: the statement is silent
                    if call.ok {
                        m.installed.push(*cand);
                    }
                } else {
                    out.expect(call.ok == want, "rotate.outcome", || {
                        format!(
                            "{:?} with installed {:?}: ok={} ({}), model says {} (well-formed {}, proof_ok {})",
                            a, m.installed, call.ok, call.err, want, candidate.well_formed(), proof_ok
                        )
                    });
                    if call.ok {
                        m.installed.push(*cand);
                    }
                }
                if call.ok {
                    let r = match_events(
                        &call.events,
                        &[EvPat {
                            contract: w.sc_addr(&ctx.gw),
                            name: "signers_rotated",
                            must: vec![su64(m.installed.len() as u64), sbytes(&candidate.hash())],
                        }],
                        &["signers_rotated"],
                    );
                    out.expect(r.is_ok(), "rotate.events", || r.unwrap_err());
                } else {
                    out.expect(h0 == w.state_hash(), "rotate.failed-but-changed-state", || format!("{:?}", a));
                }
            }
        }
    }

    fn probe(&self, ctx: &Ctx, m: &Model, out: &mut StepOut) {
        if !m.deployed {
            return;
        }
        let w = &ctx.w;
        let env = &w.env;
        let n = m.installed.len();
        let q = w.query(&ctx.gw, "epoch", &[]);
        out.expect(q == Some(su64(n as u64)), "probe.epoch", || format!("epoch {:?}, model {}", q, n));
        for e in 0..=(n + 1) {
            let q = w.query(&ctx.gw, "signers_hash_by_epoch", &[w.v(e as u64)]);
            let want = if e >= 1 && e <= n { Some(sbytes(&ctx.cands[m.installed[e - 1]].hash())) } else { None };
            out.expect(q == want, "probe.signers_hash_by_epoch", || {
                format!("epoch {}: got {:?}, model {:?} (installed {:?})", e, q, want, m.installed)
            });
        }
        for (ci, c) in ctx.cands.iter().enumerate() {
            let q = w.query(&ctx.gw, "epoch_by_signers_hash", &[to_val(env, &sbytes(&c.hash()))]);
            let want = m.installed.iter().position(|x| *x == ci).map(|p| su64(p as u64 + 1));
            out.expect(q == want, "probe.epoch_by_signers_hash", || {
                format!("candidate {}: got {:?}, model {:?} (installed {:?})", ci, q, want, m.installed)
            });
        }
    }

    fn sweep_targets(&self, ctx: &Ctx) -> (Vec<(Address, &'static str, &'static [&'static str])>, Vec<Address>) {
        (vec![(ctx.gw.clone(), "/repo/contracts/axelar-gateway/src", &axmc::inventory::GATEWAY_KNOWN[..])], vec![ctx.gw.clone()])
    }

    fn must_succeed_kinds(&self) -> Vec<&'static str> {
        vec!["construct", "rotate"]
    }
}

use soroban_sdk::TryFromVal;

fn main() {
    main_for(|tier| {
        let thorough = tier == "thorough";
        let s = C03 { thorough, retentions: if thorough { vec![1, 0, 2] } else { vec![1] } };
        let mut o = Opts::new(tier, if thorough { 9 } else { 7 });
        o.min_depth = 3;
        o.xcheck = tier == "thorough";
        o.rule = "retention 1 (thorough: also 0 and 2); construction through a factory with initial lists [], [I0], [I0,I1], [I0,I0], [I0,I1,I0], [I0,I1,A], [A,A,B], [I0,malformed_i], [malformed_i] (12 malformed shapes: empty, adjacent duplicate key with equal and with ascending weights (first and last position), descending keys, all-zero key, zero weight, weights summing past u128 at the last / first / a middle signer with the wrapped total reaching the threshold, threshold 0, threshold total+1); then all rotation sequences over candidates {A,B,C(33 signers, threshold==total),I0,I1, 12 malformed} x proof source {latest, older retained, outdated, never-installed, latest-signing-another-candidate, latest-signing-under-the-approval-command-tag, latest with one entry listed twice, latest with only the first signer (below the threshold) signing genuinely and every other slot filled with a signature by that signer's key} x bypass {no, operator, no auth, owner auth}; after every new state epoch(), signers_hash_by_epoch(e) for all e in 0..=epoch+1 and epoch_by_signers_hash(h) for all 17 candidate hashes are compared with the installed list".into();
        (s, o)
    });
}
