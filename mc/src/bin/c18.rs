//! C18: remote token deployments announce the registered token's true id and metadata.

use axmc::aux::{FussyToken, WeirdToken};
use axmc::explore::*;
use axmc::its::*;
use axmc::refs::*;
use axmc::world::*;
use serde::{Deserialize, Serialize};
use soroban_sdk::xdr::ScVal;
use soroban_sdk::Address;

// the default destination has mixed case: chain names are opaque strings and must be announced byte for byte
// the third one is the service's own chain name and is never trusted in any history
const CHAINS: [&str; 4] = ["Ethereum-Sepolia", "avalanche", "stellar", HUB_CHAIN];
const SALTS: [[u8; 32]; 4] = [[0x51; 32], [0x52; 32], [0x53; 32], [0x59; 32]];

#[derive(Clone, Hash)]
struct Model {
    advances: u8,
    trusted: [bool; 4],
    /// gas-token balances of U0, U1, gas service
    gas: [i128; 3],
    rebranded: bool,
}

#[derive(Clone, Copy, Debug, PartialEq, Eq, Serialize, Deserialize)]
enum Gas {
    Neg,
    Zero,
    One,
    All,
    AllPlus1,
}

#[derive(Clone, Debug, Serialize, Deserialize)]
enum Act {
    /// a remote deployment whose gas is stated as -1 of a token that does not look at signs (the gas
    /// service holds some of it): refused, or the "payer" is paid out of the service's funds
    NegativeGasInNaiveToken,
    /// the issuer of a registered custom token renames it (later announcements carry the new metadata)
    Rebrand,
    SetTrusted(usize),
    RemoveTrusted(usize),
    /// deploy_remote_interchain_token; auth: 0 = caller, 1 = the other user, 2 = nobody
    Interchain { caller: usize, salt: usize, dest: usize, gas: Gas, auth: u8 },
    /// deploy_remote_canonical_token for canonical token index `tok`; spender pays
    Canonical { tok: usize, spender: usize, dest: usize, gas: Gas, auth: u8 },
    Advance(u32),
}

struct CanonTok {
    addr: Address,
    registered: bool,
    /// None = outcome unspecified (non-UTF-8 name); Some(b) = representable or not
    representable: Option<bool>,
}

struct Ctx {
    iw: ItsWorld,
    /// metadata of the three tokens U0 deployed with salts 0..3
    local_meta: Vec<(Vec<u8>, Vec<u8>, u32)>,
    canon: Vec<CanonTok>,
    /// a token that ignores the sign of amounts; the gas service holds 5 of it
    naive: Address,
    balance_watch: Vec<(Address, Address)>,
}

struct C18 {
    thorough: bool,
}

impl C18 {
    fn gas_amount(&self, g: Gas, bal: i128) -> i128 {
        match g { Gas::Neg => -1, Gas::Zero => 0, Gas::One => 1, Gas::All => bal, Gas::AllPlus1 => bal + 1 }
    }
}

impl Scenario for C18 {
    type Ctx = Ctx;
    type M = Model;
    type A = Act;

    fn id(&self) -> &'static str { "C18" }
    fn n_configs(&self) -> usize { 1 }
    fn config_label(&self, _: usize) -> String { "ITS with 3 service-deployed tokens (metadata grid), a canonical asset contract, 5 canonical tokens with unusual metadata, unregistered ids".into() }
    fn world<'a>(&self, ctx: &'a Ctx) -> &'a World { &ctx.iw.w }

    fn build(&self, _c: usize) -> (Ctx, Model) {
        let iw = ItsWorld::new("stellar", 2, 2);
        let w = &iw.w;
        let env = &w.env;
        let local_meta: Vec<(Vec<u8>, Vec<u8>, u32)> = vec![
            (b" Token One ".to_vec(), b"ONE".to_vec(), 7),
            ("Жетон 🚀".as_bytes().to_vec(), "J€".as_bytes().to_vec(), 255),
            (b"Z".to_vec(), b"Z".to_vec(), 0),
        ];
        let u0 = [iw.users[0].clone()];
        for (i, (n, s, d)) in local_meta.iter().enumerate() {
            let id = interchain_token_id("stellar", &iw.sc(&iw.users[0]), &SALTS[i]);
            iw.seat_token(&id);
            let c = w.call(
                &iw.its,
                "deploy_interchain_token",
                // the third token has the deployer as designated minter (no initial supply): the remote
                // deployment must still announce an empty minter
                &[
                    iw.users[0].to_val(),
                    to_val(env, &sbytes(&SALTS[i])),
                    to_val(env, &metadata_scval(n, s, *d)),
                    w.v(if i == 2 { 0i128 } else { 10 }),
                    if i == 2 { iw.users[0].to_val() } else { to_val(env, &ScVal::Void) },
                ],
                Auth::By(&u0),
            );
            assert!(c.ok, "setup deploy {}: {}", i, c.err);
        }
        let mut canon = vec![];
        let weird: Vec<(Vec<u8>, Vec<u8>, u32, Option<bool>)> = vec![
            (b"W256".to_vec(), b"W".to_vec(), 256, Some(false)),
            (vec![], b"W".to_vec(), 7, Some(false)),
            (b"W".to_vec(), vec![], 7, Some(false)),
            (vec![0xff, 0xfe, 0x41], b"W".to_vec(), 7, None),
            (b"W255".to_vec(), b"W".to_vec(), 255, Some(true)),
            // blanks are characters like any other: representable, and announced as they are
            (b" ".to_vec(), b"W".to_vec(), 7, Some(true)),
            (b"W".to_vec(), b"SPC ".to_vec(), 7, Some(true)),
            // NUL bytes too (zero-padded asset codes): representable, announced as they are
            (b"W".to_vec(), b"PAD\0".to_vec(), 7, Some(true)),
            (b"\0".to_vec(), b"W".to_vec(), 7, Some(true)),
            // the name the native asset's contract reports, on a token that is not the native asset
            (b"native".to_vec(), b"NTV".to_vec(), 7, Some(true)),
        ];
        canon.push(CanonTok { addr: iw.assets[0].clone(), registered: true, representable: Some(true) });
        canon.push(CanonTok { addr: iw.assets[1].clone(), registered: false, representable: Some(true) });
        for (n, s, d, r) in weird {
            let a = env.register(WeirdToken, (to_val(env, &sstr_bytes(&n)), to_val(env, &sstr_bytes(&s)), d));
            canon.push(CanonTok { addr: a, registered: true, representable: r });
        }
        for c in canon.iter().filter(|c| c.registered) {
            let r = w.call(&iw.its, "register_canonical_token", &[c.addr.to_val()], Auth::Nobody);
            assert!(r.ok, "{}", r.err);
        }
        assert!(iw.set_trusted(CHAINS[0]).ok);
        iw.mint_asset(&iw.gas_token, &iw.users[0], 3);
        iw.mint_asset(&iw.gas_token, &iw.users[1], 1);
        iw.mint_asset(&iw.assets[0], &iw.users[0], 9);
        // balances that must never move: every (token, holder) other than the gas payment
        let mut balance_watch = vec![];
        for t in [iw.assets[0].clone(), iw.assets[1].clone()] {
            for h in [iw.users[0].clone(), iw.users[1].clone(), iw.its.clone(), iw.gas.clone()] {
                balance_watch.push((t.clone(), h));
            }
        }
        for i in 0..3 {
            let id = interchain_token_id("stellar", &iw.sc(&iw.users[0]), &SALTS[i]);
            let t = addr_from_sc(w, &iw.token_address_of(&id));
            for h in [iw.users[0].clone(), iw.users[1].clone(), iw.its.clone()] {
                balance_watch.push((t.clone(), h));
            }
        }
        let naive = env.register(FussyToken, (iw.owner.clone(),));
        assert!(w.call(&naive, "mint", &[iw.gas.to_val(), w.v(5i128)], Auth::Setup).ok);
        (Ctx { iw, local_meta, canon, balance_watch, naive }, Model { advances: 0, trusted: [true, false, false, false], gas: [3, 1, 0], rebranded: false })
    }

    fn actions(&self, ctx: &Ctx, m: &Model) -> Vec<Act> {
        let mut v = vec![];
        if m.advances < 1 {
            v.push(Act::Advance(20));
            // ~405 days: longer than the maximum entry TTL, so every temporary entry is gone by then, while
            // the world's keeper (World::set_seq) keeps instance / persistent entries alive
            v.push(Act::Advance(7_000_000));
        }
        if !m.rebranded {
            v.push(Act::Rebrand);
        }
        v.push(Act::NegativeGasInNaiveToken);
        for c in [0usize, 1, 3] {
            v.push(Act::SetTrusted(c));
            v.push(Act::RemoveTrusted(c));
        }
        for caller in 0..2usize {
            for salt in 0..4usize {
                v.push(Act::Interchain { caller, salt, dest: 0, gas: Gas::One, auth: 0 });
            }
        }
        for tok in 0..ctx.canon.len() {
            v.push(Act::Canonical { tok, spender: 0, dest: 0, gas: Gas::One, auth: 0 });
        }
        for dest in 1..4usize {
            v.push(Act::Interchain { caller: 0, salt: 0, dest, gas: Gas::One, auth: 0 });
            v.push(Act::Canonical { tok: 0, spender: 0, dest, gas: Gas::One, auth: 0 });
        }
        for gas in [Gas::All, Gas::AllPlus1, Gas::Zero, Gas::Neg] {
            v.push(Act::Interchain { caller: 0, salt: 1, dest: 0, gas, auth: 0 });
            v.push(Act::Canonical { tok: 0, spender: 1, dest: 0, gas, auth: 0 });
        }
        // the gas service named as its own payer, nobody authorising
        v.push(Act::Canonical { tok: 0, spender: 2, dest: 0, gas: Gas::One, auth: 2 });
        for auth in 1..3u8 {
            v.push(Act::Interchain { caller: 0, salt: 0, dest: 0, gas: Gas::One, auth });
            v.push(Act::Canonical { tok: 0, spender: 0, dest: 0, gas: Gas::One, auth });
        }
        if self.thorough {
            for salt in 0..3usize {
                for dest in 0..4usize {
                    v.push(Act::Interchain { caller: 0, salt, dest, gas: Gas::All, auth: 0 });
                }
            }
            for tok in 0..ctx.canon.len() {
                v.push(Act::Canonical { tok, spender: 1, dest: 0, gas: Gas::One, auth: 0 });
            }
        }
        v
    }

    fn step(&self, ctx: &Ctx, m: &mut Model, a: &Act, out: &mut StepOut) {
        let iw = &ctx.iw;
        let w = &iw.w;
        let env = &w.env;
        let h0 = w.state_hash();
        match a {
            Act::Advance(n) => {
                out.kind = "advance";
                out.accepted = true;
                w.set_seq(w.seq() + n);
                w.set_time(w.now() + 5 * *n as u64);
                m.advances += 1;
            }
            Act::NegativeGasInNaiveToken => {
                out.kind = "remote-interchain-refused";
                let cl = &iw.users[0];
                let call = w.call(
                    &iw.its,
                    "deploy_remote_interchain_token",
                    &[cl.to_val(), to_val(env, &sbytes(&SALTS[0])), to_val(env, &sstr(CHAINS[0])), to_val(env, &token_scval(&iw.sc(&ctx.naive), -1))],
                    Auth::By(&[cl.clone()]),
                );
                out.accepted = call.ok;
                out.expect(!call.ok, "remote-interchain.outcome", || "a remote deployment stating a gas payment of -1 was accepted".into());
                if !call.ok {
                    out.expect(h0 == w.state_hash(), "rejected-but-changed-state", || format!("{:?}", a));
                }
            }
            Act::Rebrand => {
                out.kind = "rebrand";
                out.accepted = true;
                // canonical token 6 ("W255") gets a new name and symbol from its issuer
                let c = w.call(&ctx.canon[6].addr, "rebrand", &[to_val(env, &sstr("W255 renamed")), to_val(env, &sstr("W2"))], Auth::Nobody);
                assert!(c.ok, "{}", c.err);
                m.rebranded = true;
            }
            Act::SetTrusted(c) | Act::RemoveTrusted(c) => {
                out.kind = "trust";
                let set = matches!(a, Act::SetTrusted(_));
                let r = if set { iw.set_trusted(CHAINS[*c]) } else { iw.remove_trusted(CHAINS[*c]) };
                out.accepted = r.ok;
                out.expect(r.ok == (m.trusted[*c] != set), "trust.outcome", || format!("{:?}: ok={}", a, r.ok));
                if r.ok { m.trusted[*c] = set; }
            }
            Act::Interchain { .. } | Act::Canonical { .. } => {
                let (call, payer, dest, g, registered, representable, id, tok_addr, meta): (Call, usize, usize, i128, bool, Option<bool>, [u8; 32], Option<Address>, Option<(Vec<u8>, Vec<u8>, u32)>);
                let authorised: bool;
                match a {
                    Act::Interchain { caller, salt, dest: d, gas, auth } => {
                        out.kind = "remote-interchain";
                        let cl = &iw.users[*caller];
                        let gx = self.gas_amount(*gas, m.gas[*caller]);
                        let signers: Vec<Address> = match auth { 0 => vec![cl.clone()], 1 => vec![iw.users[1 - *caller].clone()], _ => vec![] };
                        call = w.call(
                            &iw.its,
                            "deploy_remote_interchain_token",
                            &[cl.to_val(), to_val(env, &sbytes(&SALTS[*salt])), to_val(env, &sstr(CHAINS[*d])), to_val(env, &token_scval(&iw.sc(&iw.gas_token), gx))],
                            Auth::By(&signers),
                        );
                        authorised = *auth == 0;
                        payer = *caller;
                        dest = *d;
                        g = gx;
                        // only U0's salts 0..3 were ever deployed; the id binds the caller
                        registered = *caller == 0 && *salt < 3;
                        representable = Some(true);
                        id = interchain_token_id("stellar", &iw.sc(cl), &SALTS[*salt]);
                        tok_addr = if registered { Some(addr_from_sc(w, &iw.token_address_of(&id))) } else { None };
                        meta = if registered { Some(ctx.local_meta[*salt].clone()) } else { None };
                    }
                    Act::Canonical { tok, spender, dest: d, gas, auth } => {
                        out.kind = "remote-canonical";
                        let ct = &ctx.canon[*tok];
                        // payer 2 is the gas service itself (nobody can sign for it)
                        let sp = &if *spender == 2 { iw.gas.clone() } else { iw.users[*spender].clone() };
                        let gx = self.gas_amount(*gas, m.gas[*spender]);
                        let signers: Vec<Address> = match auth { 0 => vec![sp.clone()], 1 => vec![iw.users[1 - *spender].clone()], _ => vec![] };
                        call = w.call(
                            &iw.its,
                            "deploy_remote_canonical_token",
                            &[ct.addr.to_val(), to_val(env, &sstr(CHAINS[*d])), sp.to_val(), to_val(env, &token_scval(&iw.sc(&iw.gas_token), gx))],
                            Auth::By(&signers),
                        );
                        authorised = *auth == 0;
                        payer = *spender;
                        dest = *d;
                        g = gx;
                        registered = ct.registered;
                        representable = ct.representable;
                        id = canonical_token_id("stellar", &iw.sc(&ct.addr));
                        tok_addr = Some(ct.addr.clone());
                        // the token's *actual* metadata, read from the token itself
                        meta = if registered {
                            let n = w.query(&ct.addr, "name", &[]).and_then(|v| string_of(&v));
                            let s = w.query(&ct.addr, "symbol", &[]).and_then(|v| string_of(&v));
                            let dd = w.query(&ct.addr, "decimals", &[]).and_then(|v| u32_of(&v));
                            match (n, s, dd) { (Some(n), Some(s), Some(dd)) => Some((n, s, dd)), _ => None }
                        } else { None };
                    }
                    _ => unreachable!(),
                }
                out.accepted = call.ok;
                let base_ok = authorised && registered && m.trusted[dest] && g > 0 && m.gas[payer] >= g;
                match representable {
                    Some(rep) => {
                        let want = base_ok && rep;
                        out.expect(call.ok == want, &format!("{}.outcome", out.kind), || {
                            format!("{:?} (gas {}, payer balance {}, trusted {:?}, registered {}, representable {}): ok={} ({}), model {}", a, g, m.gas[payer], m.trusted, registered, rep, call.ok, call.err, want)
                        });
                    }
                    None => {
                        if !base_ok {
                            out.expect(!call.ok, &format!("{}.outcome", out.kind), || format!("{:?}: accepted although a precondition fails", a));
                        }
                    }
                }
                if !call.ok {
                    out.expect(h0 == w.state_hash(), "rejected-but-changed-state", || format!("{:?}", a));
                    return;
                }
                if !base_ok { return; }
                m.gas[payer] -= g;
                m.gas[2] += g;
                out.expect(call.ret == Some(sbytes(&id)), "returned-id", || format!("returned {:?}, independent derivation {}", call.ret, hex(&id)));
                if let (Some((n, s, d)), Some(ta)) = (meta, tok_addr) {
                    if d <= 255 {
                        let payload = abi_hub(&RHub::SendToHub {
                            chain: CHAINS[dest].as_bytes().to_vec(),
                            msg: RMsg::Deploy { token_id: id, name: n.clone(), symbol: s.clone(), decimals: d as u8, minter: vec![] },
                        });
                        let ph = keccak(&payload);
                        let expected = vec![
                            EvPat { contract: iw.sc(&iw.its), name: "token_deployment_started", must: vec![sbytes(&id), w.sc_addr_val(&ta), sstr(CHAINS[dest]), sstr_bytes(&n), sstr_bytes(&s), su32(d)] },
                            EvPat { contract: iw.sc(&iw.gas), name: "gas_paid", must: vec![w.sc_addr_val(&iw.its), sstr(HUB_CHAIN), sstr(HUB_ADDRESS), sbytes(&ph), w.sc_addr_val(&iw.users[payer]), token_scval(&iw.sc(&iw.gas_token), g)] },
                            EvPat { contract: iw.sc(&iw.gw), name: "contract_called", must: vec![w.sc_addr_val(&iw.its), sstr(HUB_CHAIN), sstr(HUB_ADDRESS), sbytes(&ph), sbytes(&payload)] },
                        ];
                        let r = match_events(&call.events, &expected, &["token_deployment_started", "gas_paid", "contract_called", "interchain_transfer_sent"]);
                        out.expect(r.is_ok(), "announcement", || truncate(&r.unwrap_err(), 900));
                    } else {
                        out.fail("accepted-unrepresentable-decimals", format!("{:?}: decimals {}", a, d));
                    }
                }
            }
        }
    }

    fn probe(&self, ctx: &Ctx, m: &Model, out: &mut StepOut) {
        let iw = &ctx.iw;
        let w = &iw.w;
        for (i, h) in [&iw.users[0], &iw.users[1], &iw.gas].iter().enumerate() {
            let q = iw.balance(&iw.gas_token, h);
            out.expect(q == Some(m.gas[i]), "probe.gas-balance", || format!("holder {}: {:?} vs {}", i, q, m.gas[i]));
        }
        // no funds other than the gas payment ever move
        let zero_supply_token = addr_from_sc(w, &iw.token_address_of(&interchain_token_id("stellar", &iw.sc(&iw.users[0]), &SALTS[2])));
        let expect_bal = |t: &Address, h: &Address| -> i128 {
            if *t == iw.assets[0] && *h == iw.users[0] { 9 }
            else if *t != iw.assets[0] && *t != iw.assets[1] && *h == iw.users[0] { if *t == zero_supply_token { 0 } else { 10 } }
            else { 0 }
        };
        for (t, h) in &ctx.balance_watch {
            let q = iw.balance(t, h);
            out.expect(q == Some(expect_bal(t, h)), "probe.other-funds-moved", || format!("{:?} vs {}", q, expect_bal(t, h)));
        }
        for (i, c) in CHAINS.iter().enumerate() {
            let q = w.query(&iw.its, "is_trusted_chain", &[to_val(&w.env, &sstr(c))]);
            out.expect(q == Some(ScVal::Bool(m.trusted[i])), "probe.trusted", || format!("{}: {:?}", c, q));
        }
    }

    fn sweep_targets(&self, ctx: &Ctx) -> (Vec<(Address, &'static str, &'static [&'static str])>, Vec<Address>) {
        let iw = &ctx.iw;
        (
            vec![
                (iw.its.clone(), "/repo/contracts/interchain-token-service/src", &axmc::inventory::ITS_KNOWN[..]),
                (iw.gw.clone(), "/repo/contracts/axelar-gateway/src", &axmc::inventory::GATEWAY_KNOWN[..]),
                (iw.gas.clone(), "/repo/contracts/axelar-gas-service/src", &axmc::inventory::GAS_KNOWN[..]),
            ],
            vec![iw.users[0].clone(), iw.users[1].clone(), iw.its.clone()],
        )
    }

    fn must_succeed_kinds(&self) -> Vec<&'static str> {
        vec!["remote-interchain", "remote-canonical", "trust"]
    }
}

fn main() {
    main_for(|tier| {
        let thorough = tier == "thorough";
        let mut o = Opts::new(tier, if thorough { 11 } else { 9 });
        o.min_depth = 2;
        o.xcheck = tier == "thorough";
        o.rule = "histories of trusted-chain changes (a mixed-case name, a lower-case name, the hub itself) followed by remote deployment requests: deploy_remote_interchain_token for caller U0 / U1 x 4 salts (3 registered by U0 with metadata incl. multi-byte name and decimals 0/7/255; one never used; U1 reusing U0's salts) and deploy_remote_canonical_token for a registered asset contract, an unregistered one and 9 canonical tokens with unusual metadata (256 decimals, empty name, empty symbol, non-UTF-8 name, 255 decimals, a name that is one blank, a symbol ending in a blank, a symbol ending in NUL, a name that is one NUL, the name 'native' on a token that is not the native asset); a registered custom token renamed by its issuer between two requests; destination trusted / removed again / never trusted (the service's own chain name) / the hub; the gas service named as its own payer; gas -1, 0, 1, balance, balance+1, and -1 of a token that ignores signs; authorised by the payer / the other user / nobody. Announced payload, gas_paid and token_deployment_started are compared with the independent ABI encoding of the token's actual metadata; every other balance must stay put".into();
        (C18 { thorough }, o)
    });
}
