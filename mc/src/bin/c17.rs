//! C17: only current operators act via the operators contract; calls forward intact.

use axmc::aux::{Principal, Probe};
use axmc::explore::*;
use axmc::refs::*;
use axmc::world::*;
use serde::{Deserialize, Serialize};
use soroban_sdk::xdr::ScVal;
use soroban_sdk::{Address, Symbol, Val};

// principals: 0 X, 1 Y, 2 Z, 3 O (initial owner), 4 N (other owner), 5 S (stranger),
// 6 the all-zero account address (handing the ownership to it renounces it), 7 the operators contract itself
struct Ctx {
    w: World,
    ops: Address,
    probe: Address,
    probe2: Address,
    p: Vec<Address>,
}

#[derive(Clone, Hash)]
struct Model {
    advances: u8,
    members: [bool; 4],
    owner: usize,
    count: u32,
}

#[derive(Clone, Copy, Debug, PartialEq, Eq, Serialize, Deserialize)]
enum Target {
    Echo(u8),
    Add,
    Record,
    Boom,
    Crash,
    NoSuchFn,
    WrongArgs,
    /// ten arguments of different types, returned in order
    Ten,
}

#[derive(Clone, Debug, Serialize, Deserialize)]
enum Act {
    AddOp { acct: usize, by: usize },
    RemoveOp { acct: usize, by: usize },
    TransferOwnership { to: usize, by: usize },
    /// auth: 0 = the caller itself, 1 = the stranger, 2 = nobody, 3 = the owner,
    /// 4 = the caller, but for a different forwarded function with the same arguments,
    /// 5 = the caller, but for a different target contract,
    /// 6 = the caller, but for different forwarded arguments (same target and function)
    Execute { caller: usize, auth: u8, target: Target },
    Advance(u32),
}

struct C17;

fn echo_val(i: u8) -> ScVal {
    match i {
        0 => ScVal::Void,
        1 => su32(7),
        2 => si128(-5),
        3 => sstr("héllo"),
        4 => sbytes(&[0, 255, 3]),
        5 => svec(vec![su32(1), sstr("x"), svec(vec![])]),
        6 => smap(vec![("a", su64(1)), ("b", sbool(true))]),
        7 => su128(u128::MAX),
        // values a success-flag or error-code reading of the result would trip over
        8 => sbool(false),
        9 => su32(0),
        10 => sstr(""),
        _ => sbool(true),
    }
}

/// operator candidate -> principal index (candidate 3 is the account-type address)
fn who(acct: usize) -> usize {
    if acct == 3 { 8 } else { acct }
}

impl Scenario for C17 {
    type Ctx = Ctx;
    type M = Model;
    type A = Act;

    fn id(&self) -> &'static str { "C17" }
    fn n_configs(&self) -> usize { 1 }
    fn config_label(&self, _: usize) -> String { "operators contract, probe target, accounts X Y Z, owners O N, stranger S".into() }
    fn world<'a>(&self, ctx: &'a Ctx) -> &'a World { &ctx.w }

    fn build(&self, _c: usize) -> (Ctx, Model) {
        let w = World::new();
        let env = &w.env;
        let mut p: Vec<Address> = (0..6).map(|_| env.register(Principal, ())).collect();
        let ops = env.register(axelar_operators::AxelarOperators, (p[3].clone(),));
        p.push(Address::from_string(&soroban_sdk::String::from_str(env, "GAAAAAAAAAAAAAAAAAAAAAAAAAAAAAAAAAAAAAAAAAAAAAAAAAAAAWHF")));
        p.push(ops.clone());
        // 8: an account-type (G...) address that the owner may make an operator; nobody signs for it here
        p.push(axmc::its::addr_from_sc(
            &w,
            &soroban_sdk::xdr::ScAddress::Account(soroban_sdk::xdr::AccountId(soroban_sdk::xdr::PublicKey::PublicKeyTypeEd25519(soroban_sdk::xdr::Uint256([9; 32])))),
        ));
        let probe = env.register(Probe, ());
        let probe2 = env.register(Probe, ());
        // the target names Z as its owner / operator / admin / collector: that makes Z nothing here
        for t in [&probe, &probe2] {
            let c = w.call(t, "set_boss", &[p[2].to_val()], Auth::Nobody);
            assert!(c.ok, "probe set-up failed: {}", c.err);
        }
        (Ctx { w, ops, probe, probe2, p }, Model { advances: 0, members: [false; 4], owner: 3, count: 0 })
    }

    fn actions(&self, _ctx: &Ctx, m: &Model) -> Vec<Act> {
        let mut v = vec![];
        if m.advances < 1 {
            v.push(Act::Advance(20));
            // ~405 days: longer than the maximum entry TTL, so every temporary entry is gone by then, while
            // the world's keeper (World::set_seq) keeps instance / persistent entries alive
            v.push(Act::Advance(7_000_000));
        }
        // account 3 is the account-type address (principal 8)
        for acct in 0..4 {
            for by in [3usize, 4, 5] {
                v.push(Act::AddOp { acct, by });
                v.push(Act::RemoveOp { acct, by });
            }
        }
        for (to, by) in [(4usize, 3usize), (3, 4), (4, 4), (5, 5), (3, 3), (6, 3), (6, 4), (7, 3), (7, 4)] {
            v.push(Act::TransferOwnership { to, by });
        }
        let mut targets = vec![Target::Add, Target::Boom, Target::Crash, Target::NoSuchFn, Target::WrongArgs, Target::Ten];
        for i in 0..12u8 {
            targets.push(Target::Echo(i));
        }
        if m.count < 2 {
            targets.push(Target::Record);
        }
        // the account-type candidate: nobody can sign for it in this world, so whether it is an
        // operator or not, a call naming it must be refused (a stranger signing / nobody signing)
        v.push(Act::Execute { caller: 3, auth: 1, target: Target::Add });
        v.push(Act::Execute { caller: 3, auth: 2, target: Target::Add });
        for caller in 0..3usize {
            for t in &targets {
                v.push(Act::Execute { caller, auth: 0, target: *t });
            }
            for auth in 1..7u8 {
                // nobody can sign for a renounced or self-owned contract's owner
                if auth == 3 && m.owner >= 6 { continue; }
                v.push(Act::Execute { caller, auth, target: Target::Add });
                if auth >= 4 { continue; }
                if m.count < 2 {
                    v.push(Act::Execute { caller, auth, target: Target::Record });
                }
            }
        }
        v
    }

    fn step(&self, ctx: &Ctx, m: &mut Model, a: &Act, out: &mut StepOut) {
        let w = &ctx.w;
        let env = &w.env;
        let p = &ctx.p;
        let h0 = w.state_hash();
        let opsc = w.sc_addr(&ctx.ops);
        match a {
            Act::Advance(n) => {
                out.kind = "advance";
                out.accepted = true;
                w.set_seq(w.seq() + n);
                w.set_time(w.now() + 5 * *n as u64);
                m.advances += 1;
            }
            Act::AddOp { acct, by } | Act::RemoveOp { acct, by } => {
                let add = matches!(a, Act::AddOp { .. });
                out.kind = if add { "add_operator" } else { "remove_operator" };
                let call = w.call(&ctx.ops, if add { "add_operator" } else { "remove_operator" }, &[p[who(*acct)].to_val()], Auth::By(&[p[*by].clone()]));
                let want = *by == m.owner && m.members[*acct] != add;
                out.accepted = call.ok;
                out.expect(call.ok == want, "membership.outcome", || format!("{:?}: ok={} ({}), model {} (members {:?}, owner {})", a, call.ok, call.err, want, m.members, m.owner));
                if call.ok {
                    if want { m.members[*acct] = add; }
                    let r = match_events(
                        &call.events,
                        &[EvPat { contract: opsc, name: if add { "operator_added" } else { "operator_removed" }, must: vec![w.sc_addr_val(&p[who(*acct)])] }],
                        &["operator_added", "operator_removed"],
                    );
                    out.expect(r.is_ok(), "membership.event", || r.unwrap_err());
                } else {
                    out.expect(h0 == w.state_hash(), "rejected-but-changed-state", || format!("{:?}", a));
                }
            }
            Act::TransferOwnership { to, by } => {
                out.kind = "transfer_ownership";
                let call = w.call(&ctx.ops, "transfer_ownership", &[p[*to].to_val()], Auth::By(&[p[*by].clone()]));
                let want = *by == m.owner;
                out.accepted = call.ok;
                out.expect(call.ok == want, "ownership.outcome", || format!("{:?}: ok={} ({}), model {} (owner {})", a, call.ok, call.err, want, m.owner));
                if call.ok {
                    let r = match_events(
                        &call.events,
                        &[EvPat { contract: opsc, name: "ownership_transferred", must: vec![w.sc_addr_val(&p[m.owner]), w.sc_addr_val(&p[*to])] }],
                        &["ownership_transferred"],
                    );
                    out.expect(r.is_ok(), "ownership.event", || r.unwrap_err());
                    if want { m.owner = *to; }
                } else {
                    out.expect(h0 == w.state_hash(), "rejected-but-changed-state", || format!("{:?}", a));
                }
            }
            Act::Execute { caller, auth, target } => {
                out.kind = match target { Target::Boom | Target::Crash | Target::NoSuchFn | Target::WrongArgs => "execute-failing-target", _ => "execute" };
                if *auth != 0 { out.kind = "execute-unauthorised"; }
                let (func, args, expect_ret, target_ok): (&str, Vec<Val>, Option<ScVal>, bool) = match target {
                    Target::Echo(i) => ("echo", vec![to_val(env, &echo_val(*i))], Some(echo_val(*i)), true),
                    Target::Add => ("add", vec![w.v(2i128), w.v(3i128)], Some(si128(5)), true),
                    Target::Record => ("record", vec![w.v(7u32), to_val(env, &sbytes(b"tag"))], Some(su32(m.count + 1)), true),
                    Target::Boom => ("boom", vec![], None, false),
                    Target::Crash => ("crash", vec![], None, false),
                    Target::NoSuchFn => ("nothing_here", vec![], None, false),
                    Target::WrongArgs => ("add", vec![w.v(2i128)], None, false),
                    Target::Ten => {
                        let vals: Vec<ScVal> = (0..8u8).map(echo_val).chain([si128(-7), su32(9)]).collect();
                        ("ten", vals.iter().map(|v| to_val(env, v)).collect(), Some(ScVal::Vec(Some(soroban_sdk::xdr::ScVec(vals.try_into().unwrap())))), true)
                    }
                };
                let argv: soroban_sdk::Vec<Val> = soroban_sdk::Vec::from_slice(env, &args);
                let signers: Vec<Address> = match auth {
                    0 | 4 | 5 | 6 => vec![p[who(*caller)].clone()],
                    1 => vec![p[5].clone()],
                    2 => vec![],
                    _ => vec![p[m.owner].clone()],
                };
                let call_args = [p[who(*caller)].to_val(), ctx.probe.to_val(), Symbol::new(env, func).to_val(), argv.to_val()];
                let other_fn = [p[who(*caller)].to_val(), ctx.probe.to_val(), Symbol::new(env, "sub").to_val(), argv.to_val()];
                let other_target = [p[who(*caller)].to_val(), ctx.probe2.to_val(), Symbol::new(env, func).to_val(), argv.to_val()];
                let other_argv: soroban_sdk::Vec<Val> = soroban_sdk::Vec::from_slice(env, &[w.v(2i128), w.v(4i128)]);
                let other_args = [p[who(*caller)].to_val(), ctx.probe.to_val(), Symbol::new(env, func).to_val(), other_argv.to_val()];
                let call = w.call(
                    &ctx.ops,
                    "execute",
                    &call_args,
                    match auth {
                        4 => Auth::ForOtherCall(&signers, &ctx.ops, "execute", &other_fn),
                        5 => Auth::ForOtherCall(&signers, &ctx.ops, "execute", &other_target),
                        6 => Auth::ForOtherCall(&signers, &ctx.ops, "execute", &other_args),
                        _ => Auth::By(&signers),
                    },
                );
                let member = *caller < 4 && m.members[*caller];
                let want = member && *auth == 0 && target_ok;
                out.accepted = call.ok;
                out.expect(call.ok == want, "execute.outcome", || {
                    format!("{:?}: ok={} ({}), model {} (members {:?})", a, call.ok, call.err, want, m.members)
                });
                if call.ok {
                    out.expect(call.ret == expect_ret, "execute.return-value", || format!("{:?}: returned {:?}, target returned {:?}", a, call.ret, expect_ret));
                    let recorded = call.events.iter().filter(|e| e.name() == "probe_recorded").count();
                    let want_rec = if *target == Target::Record { 1 } else { 0 };
                    out.expect(recorded == want_rec, "execute.delivery-count", || format!("{} probe_recorded events, expected {}", recorded, want_rec));
                    if *target == Target::Record {
                        let r = match_events(
                            &call.events,
                            &[EvPat { contract: w.sc_addr(&ctx.probe), name: "probe_recorded", must: vec![su32(7), sbytes(b"tag")] }],
                            &["probe_recorded"],
                        );
                        out.expect(r.is_ok(), "execute.arguments", || r.unwrap_err());
                        if want { m.count += 1; }
                    }
                } else {
                    out.expect(h0 == w.state_hash(), "rejected-but-changed-state", || format!("{:?}", a));
                }
            }
        }
    }

    fn probe(&self, ctx: &Ctx, m: &Model, out: &mut StepOut) {
        let w = &ctx.w;
        for i in [0usize, 1, 2, 3, 4, 5, 8] {
            let q = w.query(&ctx.ops, "is_operator", &[ctx.p[i].to_val()]);
            let want = (i < 3 && m.members[i]) || (i == 8 && m.members[3]);
            out.expect(q == Some(ScVal::Bool(want)), "probe.is_operator", || format!("account {}: {:?} vs {}", i, q, want));
        }
        // nobody else is ever an operator: the owners, the targets of forwarded calls, the contract itself
        for (label, a) in [("target", &ctx.probe), ("second target", &ctx.probe2), ("the operators contract", &ctx.ops), ("owner O", &ctx.p[3]), ("owner N", &ctx.p[4]), ("the all-zero account", &ctx.p[6])] {
            let q = w.query(&ctx.ops, "is_operator", &[a.to_val()]);
            out.expect(q == Some(ScVal::Bool(false)), "probe.is_operator-bystander", || format!("{}: {:?}, never added", label, q));
        }
        let q = w.query(&ctx.ops, "owner", &[]);
        out.expect(q == Some(w.sc_addr_val(&ctx.p[m.owner])), "probe.owner", || format!("{:?} vs {}", q, m.owner));
        let q = w.query(&ctx.probe, "count", &[]);
        out.expect(q == Some(su32(m.count)), "probe.count", || format!("{:?} vs {}", q, m.count));
        // entry points the check does not drive by name change nothing when nobody authorises them
        let targets: [(&Address, &str, &[&str]); 1] = [(&ctx.ops, "/repo/contracts/axelar-operators/src", &axmc::inventory::OPERATORS_KNOWN)];
        let addresses = [ctx.p[0].clone(), ctx.p[5].clone(), ctx.probe.clone()];
        for (contract, func, args) in axmc::inventory::unknown_calls(w, "C17", &targets, &addresses, 32) {
            let snap = w.snap();
            let h0 = w.state_hash();
            let call = w.call(&contract, &func, &args, Auth::Nobody);
            out.expect(!call.ok || h0 == w.state_hash(), "unknown-entry-point.changed-state-unauthorised", || {
                format!("`{}` (not among the known entry points), called with nobody's authorisation, changed the operators contract's state (members {:?})", func, m.members)
            });
            w.restore(&snap);
            // the set changes only by the owner adding an absent address or removing a present one:
            // no other entry point changes it, whoever authorises
            let everybody: Vec<Address> = ctx.p[0..6].to_vec();
            let snap = w.snap();
            let before: Vec<Option<ScVal>> = (0..9).map(|i| w.query(&ctx.ops, "is_operator", &[ctx.p[i].to_val()])).collect();
            let call = w.call(&contract, &func, &args, Auth::By(&everybody));
            if call.ok {
                let after: Vec<Option<ScVal>> = (0..9).map(|i| w.query(&ctx.ops, "is_operator", &[ctx.p[i].to_val()])).collect();
                out.expect(before == after, "unknown-entry-point.changed-the-operator-set", || {
                    format!("`{}` (not among the known entry points), called with every principal's authorisation, changed the operator set (members before {:?})", func, m.members)
                });
            }
            w.restore(&snap);
        }
    }

    fn must_succeed_kinds(&self) -> Vec<&'static str> {
        vec!["add_operator", "remove_operator", "transfer_ownership", "execute"]
    }
}

fn main() {
    main_for(|tier| {
        let mut o = Opts::new(tier, if tier == "thorough" { 14 } else { 10 });
        o.min_depth = 4;
        o.xcheck = tier == "thorough";
        o.rule = "all sequences over add/remove operator X, Y, Z and an account-type address by {owner O, other owner N, stranger}, ownership transfers O<->N (and by non-owners, to self, to the all-zero account = renouncing, to the operators contract itself, and take-over attempts afterwards), execute by caller X/Y/Z authorised by {itself, a stranger, nobody, the owner, itself but for another forwarded function with the same arguments, itself but for another target contract, itself but for other forwarded arguments} forwarding to a probe contract: echo of 12 values of different types (incl. false, true, 0, the empty string, void), add(2,3), record(7,tag) (writes + emits, bounded to 2), a target returning an error, a panicking target, a missing function, wrong arity; explored to fixpoint; is_operator for all six accounts and for six bystanders (both targets, the contract itself, both owners, the all-zero account), owner() and the probe's delivery count compared after every new state; the probe target reports Z as its own owner / operator / admin / collector, which must give Z nothing; every exported function of the operators contract that the check does not drive by name is called with nobody's authorisation and must change nothing, and with every principal's authorisation and must leave the operator set alone".into();
        (C17, o)
    });
}
