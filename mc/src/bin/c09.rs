//! C09: rotations are rate-limited unless the operator bypasses the delay.
//! All interleavings of time advancement and (non-)bypass rotations, successful and failed,
//! per (minimum delay, deployment time) configuration.

use axmc::aux::Principal;
use axmc::explore::*;
use axmc::gw::*;
use axmc::refs::*;
use axmc::world::*;
use serde::{Deserialize, Serialize};
use soroban_sdk::Address;

struct Ctx {
    w: World,
    gw: Address,
    keys: Keys,
    operator: Address,
    stranger: Address,
    delay: u64,
}

#[derive(Clone, Hash)]
struct Model {
    epoch: usize,
    last: u64,
    now: u64,
}

#[derive(Clone, Debug, Serialize, Deserialize)]
enum Act {
    Advance(u64),
    Rotate,
    RotateInstalledSet,
    RotateBadProof,
    Bypass,
    BypassNoAuth,
    BypassStrangerAuth,
    /// bypass authorised by the operator with a proof from the previous (retained) signer set
    BypassOldSet,
    /// the same without any authorisation
    BypassOldSetNoAuth,
}

struct C09 {
    cfgs: Vec<(u64, u64)>,
}

fn pool(i: usize) -> SetSpec {
    SetSpec { signers: vec![(i % 2, 1)], threshold: 1, nonce: 10 + i as u8 }
}

impl Scenario for C09 {
    type Ctx = Ctx;
    type M = Model;
    type A = Act;

    fn id(&self) -> &'static str {
        "C09"
    }
    fn n_configs(&self) -> usize {
        self.cfgs.len()
    }
    fn config_label(&self, c: usize) -> String {
        format!("minimum delay {} deployed at t={}", self.cfgs[c].0, self.cfgs[c].1)
    }
    fn world<'a>(&self, ctx: &'a Ctx) -> &'a World {
        &ctx.w
    }

    fn build(&self, c: usize) -> (Ctx, Model) {
        let (delay, t0) = self.cfgs[c];
        let w = World::new();
        w.set_time(t0);
        let env = &w.env;
        let owner = env.register(Principal, ());
        let operator = env.register(Principal, ());
        let stranger = env.register(Principal, ());
        let keys = Keys::new(2);
        let gw = register_gateway(&w, None, &owner, &operator, &DOMAIN, delay, 3, &[pool(0).raw(&keys)]);
        (
            Ctx { w, gw, keys, operator, stranger, delay },
            Model { epoch: 1, last: t0, now: t0 },
        )
    }

    fn actions(&self, ctx: &Ctx, _m: &Model) -> Vec<Act> {
        let d = ctx.delay;
        let mut dts: Vec<u64> = vec![1];
        for x in [d.wrapping_sub(1), d, d.wrapping_add(1)] {
            if x > 0 && x <= 10_000 && !dts.contains(&x) {
                dts.push(x);
            }
        }
        if d > 10_000 {
            dts.push(3600);
        }
        if d > 50_000_000 {
            // well over a year, still short of the delay: whatever remembers the last rotation must
            // still be there (no temporary entry survives this jump)
            dts.push(40_000_000);
        }
        let mut v: Vec<Act> = vec![Act::Rotate, Act::Bypass];
        v.extend(dts.into_iter().map(Act::Advance));
        v.extend([Act::RotateInstalledSet, Act::RotateBadProof, Act::BypassNoAuth, Act::BypassStrangerAuth]);
        if _m.epoch >= 2 {
            v.extend([Act::BypassOldSet, Act::BypassOldSetNoAuth]);
        }
        v
    }

    fn step(&self, ctx: &Ctx, m: &mut Model, a: &Act, out: &mut StepOut) {
        let w = &ctx.w;
        let env = &w.env;
        if let Act::Advance(dt) = a {
            out.kind = "advance";
            out.accepted = true;
            w.set_time(w.now() + dt);
            // ledgers pass too: one per 5 s, at least 20 (more than the minimum temporary-entry TTL)
            w.set_seq(w.seq() + (*dt / 5).clamp(20, 8_000_000) as u32);
            m.now += dt;
            return;
        }
        let latest = pool(m.epoch - 1);
        let fresh = pool(m.epoch).raw(&ctx.keys);
        let (candidate, signed_for, bypass, auth): (RawSet, RawSet, bool, Vec<Address>) = match a {
            Act::Rotate => (fresh.clone(), fresh.clone(), false, vec![]),
            Act::RotateInstalledSet => {
                let old = pool(0).raw(&ctx.keys);
                (old.clone(), old, false, vec![])
            }
            Act::RotateBadProof => (fresh.clone(), pool(m.epoch + 1).raw(&ctx.keys), false, vec![]),
            Act::Bypass => (fresh.clone(), fresh.clone(), true, vec![ctx.operator.clone()]),
            Act::BypassNoAuth => (fresh.clone(), fresh.clone(), true, vec![]),
            Act::BypassStrangerAuth => (fresh.clone(), fresh.clone(), true, vec![ctx.stranger.clone()]),
            Act::BypassOldSet => (fresh.clone(), fresh.clone(), true, vec![ctx.operator.clone()]),
            Act::BypassOldSetNoAuth => (fresh.clone(), fresh.clone(), true, vec![]),
            Act::Advance(_) => unreachable!(),
        };
        out.kind = match a {
            Act::Rotate => "rotate",
            Act::Bypass | Act::BypassOldSet => "bypass",
            _ => "rotate-must-fail",
        };
        let signer = if matches!(a, Act::BypassOldSet | Act::BypassOldSetNoAuth) { pool(m.epoch - 2) } else { latest.clone() };
        let proof = honest_proof(&ctx.keys, &signer, &DOMAIN, &signed_for.rotation_data_hash());
        let h0 = w.state_hash();
        let call = w.call(
            &ctx.gw,
            "rotate_signers",
            &[to_val(env, &candidate.scval()), to_val(env, &proof), w.v(bypass)],
            Auth::By(&auth),
        );
        out.accepted = call.ok;
        let elapsed_ok = m.now - m.last >= ctx.delay;
        let want = match a {
            Act::Rotate => elapsed_ok,
            Act::Bypass | Act::BypassOldSet => true,
            _ => false,
        };
        out.expect(call.ok == want, "rotation.outcome", || {
            format!(
                "{:?} at t={} (last rotation {}, delay {}): ok={} ({}), model says {}",
                a, m.now, m.last, ctx.delay, call.ok, call.err, want
            )
        });
        if call.ok {
            m.epoch += 1;
            m.last = m.now;
            let q = w.query(&ctx.gw, "epoch", &[]);
            out.expect(q == Some(su64(m.epoch as u64)), "rotation.epoch", || format!("epoch {:?} vs model {}", q, m.epoch));
        } else {
            out.expect(h0 == w.state_hash(), "rotation.failed-but-changed-state", || {
                format!("{:?}: a failed rotation changed the ledger state (rotation clock?)", a)
            });
        }
    }

    fn sweep_targets(&self, ctx: &Ctx) -> (Vec<(Address, &'static str, &'static [&'static str])>, Vec<Address>) {
        (vec![(ctx.gw.clone(), "/repo/contracts/axelar-gateway/src", &axmc::inventory::GATEWAY_KNOWN[..])], vec![ctx.gw.clone()])
    }

    fn must_succeed_kinds(&self) -> Vec<&'static str> {
        vec!["rotate", "bypass"]
    }
}

fn main() {
    main_for(|tier| {
        let thorough = tier == "thorough";
        let mut cfgs = vec![];
        for d in [0u64, 1, 5, 1000, 1_000_000_000, 1 << 32, (1 << 32) + 5, u64::MAX] {
            for t0 in [0u64, 100, 1_700_000_000] {
                cfgs.push((d, t0));
            }
        }
        let s = C09 { cfgs };
        let mut o = Opts::new(tier, if thorough { 12 } else { 6 });
        o.min_depth = 4;
        o.rule = "minimum delay in {0,1,5,1000,1e9 (less than the ledger time of a deployment today, more than any jump),2^32,2^32+5,u64::MAX} x deployment time in {0,100,1.7e9}; all sequences over {advance 1 / delay-1 / delay / delay+1 seconds (ledgers pass at one per 5 s; for the huge delays also 3600 s and 4e7 s = 463 days), non-bypass rotation with an honest proof, non-bypass rotation to an already-installed set, non-bypass rotation with a proof for another candidate, bypass with operator / nobody / stranger authorising, bypass with a proof from the previous retained set with and without the operator} up to depth 6 (quick) / 9 (thorough); model: last successful rotation time (deployment counts)".into();
        (s, o)
    });
}
