//! C08: old signer sets stay valid for exactly the configured number of rotations.
//! All rotation histories (authorising set x bypass) per retention setting; in every reached
//! state every installed set is probed through all four proof-consuming paths.

use axmc::aux::Principal;
use axmc::explore::*;
use axmc::gw::*;
use axmc::refs::*;
use axmc::world::*;
use serde::{Deserialize, Serialize};
use soroban_sdk::Address;

struct Ctx {
    w: World,
    gw: Address,
    keys: Keys,
    operator: Address,
    dest: Address,
    retention: u64,
    n_init: usize,
    /// Some(outcome) for the configuration whose initial list repeats a set
    dup_construct_accepted: Option<bool>,
}

#[derive(Clone, Hash)]
struct Model {
    /// number of installed sets (= epoch)
    epoch: usize,
    advances: u8,
}

#[derive(Clone, Debug, Serialize, Deserialize)]
enum Act {
    /// rotate to the next fresh set, authorised by the set installed at epoch `by`
    Rotate { by: usize, bypass: bool },
    /// a relayer-style dry run that is NOT rolled back: validate_proof for the set installed at
    /// epoch `by`, over the same data the probes use later (a verdict cached now must not outlive
    /// the set's retention)
    Validate { by: usize },
    /// rotate (latest set signing, no bypass) to the set that was installed at epoch `to`: a set is
    /// installed once, so this is refused whether or not that set is still inside the window
    RotateBack { to: usize },
    Advance(u32),
}

struct C08 {
    /// (retention, number of initial sets)
    cfgs: Vec<(u64, usize)>,
    max_epoch: usize,
    max_adv: u8,
}

/// the i-th set of the pool (installed at epoch i+1): 1-2 signers, distinct nonce
fn pool(i: usize) -> SetSpec {
    if i % 2 == 0 {
        SetSpec { signers: vec![(i % 3, 1)], threshold: 1, nonce: 10 + i as u8 }
    } else {
        SetSpec { signers: vec![(0, 1), (2, 2)], threshold: 2, nonce: 10 + i as u8 }
    }
}

impl C08 {
    fn honoured(&self, ctx: &Ctx, m: &Model, e: usize) -> bool {
        ((m.epoch - e) as u64) <= ctx.retention
    }
    fn rotate_call(&self, ctx: &Ctx, m: &Model, by: usize, bypass: bool) -> Call {
        let w = &ctx.w;
        let env = &w.env;
        let next = pool(m.epoch).raw(&ctx.keys);
        let proof = honest_proof(&ctx.keys, &pool(by - 1), &DOMAIN, &next.rotation_data_hash());
        let op = [ctx.operator.clone()];
        w.call(
            &ctx.gw,
            "rotate_signers",
            &[to_val(env, &next.scval()), to_val(env, &proof), w.v(bypass)],
            if bypass { Auth::By(&op) } else { Auth::Nobody },
        )
    }
}

impl Scenario for C08 {
    type Ctx = Ctx;
    type M = Model;
    type A = Act;

    fn id(&self) -> &'static str {
        "C08"
    }
    fn n_configs(&self) -> usize {
        self.cfgs.len()
    }
    fn config_label(&self, c: usize) -> String {
        format!("retention {} initial sets {}", self.cfgs[c].0, self.cfgs[c].1)
    }
    fn world<'a>(&self, ctx: &'a Ctx) -> &'a World {
        &ctx.w
    }

    fn build(&self, c: usize) -> (Ctx, Model) {
        let (retention, n_init) = self.cfgs[c];
        let w = World::new();
        let env = &w.env;
        let owner = env.register(Principal, ());
        let operator = env.register(Principal, ());
        let dest = env.register(Principal, ());
        let keys = Keys::new(3);
        if n_init == 0 {
            // an initial list that repeats a set, [S0, S1, S1]: construction must be refused; if a
            // tree accepts it the retention window is off by the phantom epoch
            let init = vec![pool(0).raw(&keys), pool(1).raw(&keys), pool(1).raw(&keys)];
            let r = std::panic::catch_unwind(std::panic::AssertUnwindSafe(|| {
                register_gateway(&w, None, &owner, &operator, &DOMAIN, 0, retention, &init)
            }));
            let accepted = r.is_ok();
            let gw = r.unwrap_or_else(|_| dest.clone());
            return (
                Ctx { w, gw, keys, operator, dest, retention, n_init, dup_construct_accepted: Some(accepted) },
                Model { epoch: 0, advances: 0 },
            );
        }
        let init: Vec<RawSet> = (0..n_init).map(|i| pool(i).raw(&keys)).collect();
        let gw = register_gateway(&w, None, &owner, &operator, &DOMAIN, 0, retention, &init);
        (
            Ctx { w, gw, keys, operator, dest, retention, n_init, dup_construct_accepted: None },
            Model { epoch: n_init, advances: 0 },
        )
    }

    fn actions(&self, ctx: &Ctx, m: &Model) -> Vec<Act> {
        let mut v = vec![];
        if ctx.dup_construct_accepted.is_some() {
            return v;
        }
        // (a configuration that starts from a long initial list gets two rotations on top of it)
        if m.epoch < self.max_epoch.max(ctx.n_init + 2) {
            for by in (1..=m.epoch).rev() {
                v.push(Act::Rotate { by, bypass: false });
                v.push(Act::Rotate { by, bypass: true });
            }
        }
        for by in 1..=m.epoch {
            v.push(Act::Validate { by });
        }
        if ctx.n_init <= 3 {
            for to in 1..=m.epoch {
                v.push(Act::RotateBack { to });
            }
        }
        if m.advances < self.max_adv {
            v.push(Act::Advance(20));
            // ~405 days: longer than the maximum entry TTL, so every temporary entry is gone by then, while
            // the world's keeper (World::set_seq) keeps instance / persistent entries alive
            v.push(Act::Advance(7_000_000));
        }
        v
    }

    fn step(&self, ctx: &Ctx, m: &mut Model, a: &Act, out: &mut StepOut) {
        let w = &ctx.w;
        match a {
            Act::Rotate { by, bypass } => {
                out.kind = if *bypass { "rotate-bypass" } else { "rotate" };
                let h0 = w.state_hash();
                let call = self.rotate_call(ctx, m, *by, *bypass);
                let want = if *bypass { self.honoured(ctx, m, *by) } else { *by == m.epoch };
                out.accepted = call.ok;
                out.expect(call.ok == want, "rotate.window", || {
                    format!(
                        "rotation authorised by the set of epoch {} (current epoch {}, retention {}, bypass {}) -> ok={} ({}), model says {}",
                        by, m.epoch, ctx.retention, bypass, call.ok, call.err, want
                    )
                });
                if call.ok {
                    m.epoch += 1;
                } else {
                    out.expect(h0 == w.state_hash(), "rotate.rejected-but-changed", || format!("{:?}", a));
                }
            }
            Act::RotateBack { to } => {
                out.kind = "rotate-back";
                let env = &w.env;
                let h0 = w.state_hash();
                let next = pool(to - 1).raw(&ctx.keys);
                let proof = honest_proof(&ctx.keys, &pool(m.epoch - 1), &DOMAIN, &next.rotation_data_hash());
                let call = w.call(&ctx.gw, "rotate_signers", &[to_val(env, &next.scval()), to_val(env, &proof), w.v(false)], Auth::Nobody);
                out.accepted = call.ok;
                out.expect(!call.ok, "rotate.reinstalled-an-earlier-set", || {
                    format!("rotation back to the set installed at epoch {} (current epoch {}, retention {}) was accepted: its old proofs count again", to, m.epoch, ctx.retention)
                });
                if !call.ok {
                    out.expect(h0 == w.state_hash(), "rotate.rejected-but-changed", || format!("{:?}", a));
                }
            }
            Act::Validate { by } => {
                out.kind = "validate";
                let env = &w.env;
                let dh = [0x42u8; 32];
                let proof = honest_proof(&ctx.keys, &pool(by - 1), &DOMAIN, &dh);
                let c = w.call(&ctx.gw, "validate_proof", &[to_val(env, &sbytes(&dh)), to_val(env, &proof)], Auth::Nobody);
                let want = self.honoured(ctx, m, *by);
                out.accepted = c.ok;
                out.expect(c.ok == want, "validate.window", || {
                    format!("validate_proof by the set of epoch {} at epoch {} retention {}: ok={} ({}), model {}", by, m.epoch, ctx.retention, c.ok, c.err, want)
                });
            }
            Act::Advance(n) => {
                out.kind = "advance";
                out.accepted = true;
                w.set_seq(w.seq() + n);
                w.set_time(w.now() + 5 * *n as u64);
                m.advances += 1;
            }
        }
    }

    /// every installed set, through every proof-consuming path, tried and rolled back
    fn probe(&self, ctx: &Ctx, m: &Model, out: &mut StepOut) {
        if let Some(accepted) = ctx.dup_construct_accepted {
            out.expect(!accepted, "construct.accepted-repeated-initial-set", || {
                "construction with the initial list [S0, S1, S1] succeeded: the epoch counts a set that was never installed".into()
            });
            return;
        }
        let w = &ctx.w;
        let env = &w.env;
        let snap = w.snap();
        for e in 1..=m.epoch {
            let want = self.honoured(ctx, m, e);
            // standalone proof check
            let dh = [0x42u8; 32];
            let proof = honest_proof(&ctx.keys, &pool(e - 1), &DOMAIN, &dh);
            let c = w.call(&ctx.gw, "validate_proof", &[to_val(env, &sbytes(&dh)), to_val(env, &proof)], Auth::Nobody);
            out.expect(c.ok == want, "probe.validate_proof", || {
                format!("set of epoch {} at epoch {} retention {}: ok={} ({}), model {}", e, m.epoch, ctx.retention, c.ok, c.err, want)
            });
            w.restore(&snap);
            // approval of a fresh message
            let msg = msg_scval(
                &Msg { chain: "c".into(), id: format!("fresh-{}", e), src: "s".into(), dest: 0, payload_hash: [1; 32] },
                &w.sc_addr(&ctx.dest),
            );
            let c = approve(w, &ctx.gw, &ctx.keys, &pool(e - 1), &DOMAIN, &[msg]);
            out.expect(c.ok == want, "probe.approve_messages", || {
                format!("set of epoch {} at epoch {} retention {}: ok={} ({}), model {}", e, m.epoch, ctx.retention, c.ok, c.err, want)
            });
            w.restore(&snap);
            // rotations
            // a batch that is already approved, submitted again with this set's proof: the proof is
            // checked all the same
            let msg = msg_scval(
                &Msg { chain: "c".into(), id: format!("again-{}", e), src: "s".into(), dest: 0, payload_hash: [1; 32] },
                &w.sc_addr(&ctx.dest),
            );
            let first = approve(w, &ctx.gw, &ctx.keys, &pool(m.epoch - 1), &DOMAIN, &[msg.clone()]);
            let c = approve(w, &ctx.gw, &ctx.keys, &pool(e - 1), &DOMAIN, &[msg]);
            out.expect(first.ok && c.ok == want, "probe.approve_messages-again", || {
                format!("an approved batch submitted again with the proof of the set of epoch {} at epoch {} retention {}: first ok={}, again ok={} ({}), model {}", e, m.epoch, ctx.retention, first.ok, c.ok, c.err, want)
            });
            w.restore(&snap);
            if m.epoch < self.max_epoch.max(ctx.n_init + 2) + 1 {
                let c = self.rotate_call(ctx, m, e, false);
                out.expect(c.ok == (e == m.epoch), "probe.rotate", || {
                    format!("non-bypass rotation by set of epoch {} at epoch {}: ok={} ({})", e, m.epoch, c.ok, c.err)
                });
                w.restore(&snap);
                let c = self.rotate_call(ctx, m, e, true);
                out.expect(c.ok == want, "probe.rotate-bypass", || {
                    format!("bypass rotation by set of epoch {} at epoch {} retention {}: ok={} ({}), model {}", e, m.epoch, ctx.retention, c.ok, c.err, want)
                });
                w.restore(&snap);
            }
        }
    }

    fn sweep_targets(&self, ctx: &Ctx) -> (Vec<(Address, &'static str, &'static [&'static str])>, Vec<Address>) {
        (vec![(ctx.gw.clone(), "/repo/contracts/axelar-gateway/src", &axmc::inventory::GATEWAY_KNOWN[..])], vec![ctx.gw.clone()])
    }

    fn must_succeed_kinds(&self) -> Vec<&'static str> {
        vec!["rotate", "rotate-bypass", "validate"]
    }
}

fn main() {
    main_for(|tier| {
        let thorough = tier == "thorough";
        let mut cfgs = vec![];
        for r in [0u64, 1, 2, 3, 7, 1 << 32, (1 << 32) + 1, u64::MAX] {
            for n in 1..=3usize {
                cfgs.push((r, n));
            }
            if r == u64::MAX {
                // a long initial list: the oldest sets are 17 epochs old from the start
                cfgs.push((r, 18));
            }
            if r == 1 << 32 {
                // a very long one: 69 newer sets from the start
                cfgs.push((r, 70));
            }
            if r == 1 {
                // n = 0 encodes the repeated-initial-set configuration
                cfgs.push((r, 0));
            }
        }
        // windows of 16 and 17 against an initial list of 18 sets
        cfgs.push((16, 18));
        cfgs.push((17, 18));
        let s = C08 { cfgs, max_epoch: if thorough { 10 } else { 7 }, max_adv: if thorough { 2 } else { 1 } };
        let mut o = Opts::new(tier, if thorough { 13 } else { 9 });
        o.min_depth = 4;
        o.xcheck = tier == "thorough";
        o.rule = "retention in {0,1,2,3,7,2^32,2^32+1,u64::MAX} x 1-3 initial sets, and retention in {16,17,u64::MAX} x 18 initial sets and 2^32 x 70 initial sets (two rotations on top); all rotation histories where each rotation is authorised by ANY installed set, with and without operator bypass, kept (not rolled back) validate_proof calls by any installed set, rotations back to every set installed earlier (refused), plus bounded ledger advancement; explored to fixpoint up to epoch 7 (quick) / 10 (thorough). In every reached state, for EVERY installed set: validate_proof, approve_messages of a fresh id, approve_messages of a batch that is already approved, non-bypass rotation and bypass rotation are executed on a snapshot and compared with `epoch - e <= retention` (non-bypass rotation: e == epoch)".into();
        (s, o)
    });
}
