//! Independent oracles (DESIGN.md 3.7): Keccak-256 via tiny-keccak, hand-assembled ScVals
//! serialised with stellar-xdr, a hand-written Solidity ABI head/tail encoder, contract id
//! derivation. Nothing here goes through the contracts' own helpers or the repository's
//! testutils.

use sha2::{Digest, Sha256};
use soroban_sdk::xdr::{
    ContractIdPreimage, ContractIdPreimageFromAddress, Hash, HashIdPreimage,
    HashIdPreimageContractId, Int128Parts, Limits, ScAddress, ScBytes, ScMap, ScMapEntry,
    ScString, ScSymbol, ScVal, ScVec, UInt128Parts, Uint256, WriteXdr,
};
use soroban_sdk::{Env, TryFromVal, Val};
use tiny_keccak::{Hasher, Keccak};

pub fn keccak(data: &[u8]) -> [u8; 32] {
    let mut k = Keccak::v256();
    k.update(data);
    let mut out = [0u8; 32];
    k.finalize(&mut out);
    out
}

pub fn sha256(data: &[u8]) -> [u8; 32] {
    let mut h = Sha256::new();
    h.update(data);
    h.finalize().into()
}

pub fn xdr(v: &ScVal) -> Vec<u8> {
    v.to_xdr(Limits::none()).unwrap()
}

// ------------------------------------------------------------------ ScVal builders

pub fn ssym(s: &str) -> ScVal {
    ScVal::Symbol(ScSymbol(s.try_into().unwrap()))
}
pub fn sstr(s: &str) -> ScVal {
    ScVal::String(ScString(s.as_bytes().to_vec().try_into().unwrap()))
}
pub fn sstr_bytes(b: &[u8]) -> ScVal {
    ScVal::String(ScString(b.to_vec().try_into().unwrap()))
}
pub fn sbytes(b: &[u8]) -> ScVal {
    ScVal::Bytes(ScBytes(b.to_vec().try_into().unwrap()))
}
pub fn su32(x: u32) -> ScVal {
    ScVal::U32(x)
}
pub fn su64(x: u64) -> ScVal {
    ScVal::U64(x)
}
pub fn su128(x: u128) -> ScVal {
    ScVal::U128(UInt128Parts {
        hi: (x >> 64) as u64,
        lo: x as u64,
    })
}
pub fn si128(x: i128) -> ScVal {
    ScVal::I128(Int128Parts {
        hi: (x >> 64) as i64,
        lo: x as u64,
    })
}
pub fn sbool(b: bool) -> ScVal {
    ScVal::Bool(b)
}
pub fn svec(items: Vec<ScVal>) -> ScVal {
    ScVal::Vec(Some(ScVec(items.try_into().unwrap())))
}
pub fn saddr(a: &ScAddress) -> ScVal {
    ScVal::Address(a.clone())
}
/// struct = map with symbol keys sorted
pub fn smap(fields: Vec<(&str, ScVal)>) -> ScVal {
    let mut f = fields;
    f.sort_by(|a, b| a.0.cmp(b.0));
    let entries: Vec<ScMapEntry> = f
        .into_iter()
        .map(|(k, v)| ScMapEntry { key: ssym(k), val: v })
        .collect();
    ScVal::Map(Some(ScMap(entries.try_into().unwrap())))
}
/// enum unit variant = vec [symbol]; tuple variant = vec [symbol, payload...]
pub fn senum(name: &str, payload: Vec<ScVal>) -> ScVal {
    let mut v = vec![ssym(name)];
    v.extend(payload);
    svec(v)
}
pub fn sopt(v: Option<ScVal>) -> ScVal {
    v.unwrap_or(ScVal::Void)
}

pub fn to_val(env: &Env, v: &ScVal) -> Val {
    Val::try_from_val(env, v).expect("scval -> val")
}

pub fn i128_of(v: &ScVal) -> Option<i128> {
    match v {
        ScVal::I128(p) => Some(((p.hi as i128) << 64) | (p.lo as i128)),
        _ => None,
    }
}
pub fn u64_of(v: &ScVal) -> Option<u64> {
    match v {
        ScVal::U64(x) => Some(*x),
        _ => None,
    }
}
pub fn u32_of(v: &ScVal) -> Option<u32> {
    match v {
        ScVal::U32(x) => Some(*x),
        _ => None,
    }
}
pub fn bool_of(v: &ScVal) -> Option<bool> {
    match v {
        ScVal::Bool(x) => Some(*x),
        _ => None,
    }
}
pub fn bytes_of(v: &ScVal) -> Option<Vec<u8>> {
    match v {
        ScVal::Bytes(b) => Some(b.0.to_vec()),
        _ => None,
    }
}
pub fn string_of(v: &ScVal) -> Option<Vec<u8>> {
    match v {
        ScVal::String(b) => Some(b.0.to_vec()),
        _ => None,
    }
}
pub fn addr_of(v: &ScVal) -> Option<ScAddress> {
    match v {
        ScVal::Address(a) => Some(a.clone()),
        _ => None,
    }
}

// ------------------------------------------------------------------ contract id derivation

/// Address of a contract deployed by `deployer` with `salt` on network id 0.
pub fn derive_contract_id(deployer: &ScAddress, salt: &[u8; 32]) -> ScAddress {
    let pre = HashIdPreimage::ContractId(HashIdPreimageContractId {
        network_id: Hash([0u8; 32]),
        contract_id_preimage: ContractIdPreimage::Address(ContractIdPreimageFromAddress {
            address: deployer.clone(),
            salt: Uint256(*salt),
        }),
    });
    let bytes = pre.to_xdr(Limits::none()).unwrap();
    ScAddress::Contract(Hash(sha256(&bytes)))
}

// ------------------------------------------------------------------ Solidity ABI encoder

#[derive(Clone, Debug)]
pub enum Tok {
    Word([u8; 32]),
    Dyn(Vec<u8>),
}

pub fn word_u128(x: u128) -> [u8; 32] {
    let mut w = [0u8; 32];
    w[16..].copy_from_slice(&x.to_be_bytes());
    w
}

/// Standard ABI encoding of a parameter list (static words in the head, dynamic `bytes` /
/// `string` as offset in the head and length-prefixed, zero-padded data in the tail).
pub fn abi_params(toks: &[Tok]) -> Vec<u8> {
    let head_len = 32 * toks.len();
    let mut head = Vec::with_capacity(head_len);
    let mut tail: Vec<u8> = vec![];
    for t in toks {
        match t {
            Tok::Word(w) => head.extend_from_slice(w),
            Tok::Dyn(d) => {
                head.extend_from_slice(&word_u128((head_len + tail.len()) as u128));
                tail.extend_from_slice(&word_u128(d.len() as u128));
                tail.extend_from_slice(d);
                let pad = (32 - d.len() % 32) % 32;
                tail.extend(std::iter::repeat(0u8).take(pad));
            }
        }
    }
    head.extend(tail);
    head
}

/// The ITS messages, in plain Rust values (reference side).
#[derive(Clone, Debug, PartialEq, Eq, Hash)]
pub enum RMsg {
    Transfer {
        token_id: [u8; 32],
        source_address: Vec<u8>,
        destination_address: Vec<u8>,
        amount: u128,
        data: Vec<u8>,
    },
    Deploy {
        token_id: [u8; 32],
        name: Vec<u8>,
        symbol: Vec<u8>,
        decimals: u8,
        minter: Vec<u8>,
    },
}

#[derive(Clone, Debug, PartialEq, Eq, Hash)]
pub enum RHub {
    SendToHub { chain: Vec<u8>, msg: RMsg },
    ReceiveFromHub { chain: Vec<u8>, msg: RMsg },
}

pub fn abi_msg(m: &RMsg) -> Vec<u8> {
    match m {
        RMsg::Transfer {
            token_id,
            source_address,
            destination_address,
            amount,
            data,
        } => abi_params(&[
            Tok::Word(word_u128(0)),
            Tok::Word(*token_id),
            Tok::Dyn(source_address.clone()),
            Tok::Dyn(destination_address.clone()),
            Tok::Word(word_u128(*amount)),
            Tok::Dyn(data.clone()),
        ]),
        RMsg::Deploy {
            token_id,
            name,
            symbol,
            decimals,
            minter,
        } => abi_params(&[
            Tok::Word(word_u128(1)),
            Tok::Word(*token_id),
            Tok::Dyn(name.clone()),
            Tok::Dyn(symbol.clone()),
            Tok::Word(word_u128(*decimals as u128)),
            Tok::Dyn(minter.clone()),
        ]),
    }
}

pub fn abi_hub(h: &RHub) -> Vec<u8> {
    match h {
        RHub::SendToHub { chain, msg } => abi_params(&[
            Tok::Word(word_u128(3)),
            Tok::Dyn(chain.clone()),
            Tok::Dyn(abi_msg(msg)),
        ]),
        RHub::ReceiveFromHub { chain, msg } => abi_params(&[
            Tok::Word(word_u128(4)),
            Tok::Dyn(chain.clone()),
            Tok::Dyn(abi_msg(msg)),
        ]),
    }
}

pub fn hex(b: &[u8]) -> String {
    ::hex::encode(b)
}

/// Byte offset of the inner message inside a hub-wrapper encoding (third head word = offset of
/// `bytes message`, whose data follows its length word).
pub fn inner_offset(p: &[u8]) -> usize {
    u64::from_be_bytes(p[88..96].try_into().unwrap()) as usize + 32
}
/// Replace the `word`-th 32-byte word of the inner message.
pub fn patch_inner_word(p: &mut [u8], word: usize, w: &[u8; 32]) {
    let o = inner_offset(p) + 32 * word;
    p[o..o + 32].copy_from_slice(w);
}
