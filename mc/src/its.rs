//! ITS kit: a world with gateway, gas service, interchain token service (all native from the
//! current tree), native seats for the tokens ITS will deploy, a canonical asset contract,
//! and the independent id / salt / payload recipes.

use crate::aux::{Principal, TokenApp};
use crate::gw::*;
use crate::refs::*;
use crate::world::*;
use soroban_sdk::xdr::{AccountId, PublicKey, ScAddress, ScVal, Uint256};
use soroban_sdk::{Address, TryFromVal, Val};

pub const HUB_CHAIN: &str = "axelar";
pub const HUB_ADDRESS: &str = "hub-address";

pub struct ItsWorld {
    pub w: World,
    pub gw: Address,
    pub gas: Address,
    pub its: Address,
    pub owner: Address,
    pub operator: Address,
    pub collector: Address,
    pub users: Vec<Address>,
    pub keys: Keys,
    pub set: SetSpec,
    pub chain_name: String,
    /// canonical (stellar asset) tokens
    pub assets: Vec<Address>,
    pub asset_admin: Address,
    /// gas token (a separate stellar asset contract)
    pub gas_token: Address,
    pub app: Address,
}

pub fn zero_address() -> ScAddress {
    ScAddress::Account(AccountId(PublicKey::PublicKeyTypeEd25519(Uint256([0; 32]))))
}

pub fn addr_from_sc(w: &World, sc: &ScAddress) -> Address {
    Address::try_from_val(&w.env, &to_val(&w.env, &ScVal::Address(sc.clone()))).unwrap()
}

// ---- independent recipes -------------------------------------------------------------

pub fn chain_name_hash(chain: &str) -> [u8; 32] {
    keccak(&xdr(&sstr(chain)))
}
pub fn interchain_deploy_salt(chain: &str, deployer: &ScAddress, salt: &[u8; 32]) -> [u8; 32] {
    keccak(&xdr(&svec(vec![
        sstr("interchain-token-salt"),
        sbytes(&chain_name_hash(chain)),
        saddr(deployer),
        sbytes(salt),
    ])))
}
pub fn canonical_deploy_salt(chain: &str, token: &ScAddress) -> [u8; 32] {
    keccak(&xdr(&svec(vec![
        sstr("canonical-token-salt"),
        sbytes(&chain_name_hash(chain)),
        saddr(token),
    ])))
}
pub fn token_id_from_salt(deploy_salt: &[u8; 32]) -> [u8; 32] {
    keccak(&xdr(&svec(vec![
        sstr("its-interchain-token-id"),
        saddr(&zero_address()),
        sbytes(deploy_salt),
    ])))
}
pub fn interchain_token_id(chain: &str, deployer: &ScAddress, salt: &[u8; 32]) -> [u8; 32] {
    token_id_from_salt(&interchain_deploy_salt(chain, deployer, salt))
}
pub fn canonical_token_id(chain: &str, token: &ScAddress) -> [u8; 32] {
    token_id_from_salt(&canonical_deploy_salt(chain, token))
}

pub fn metadata_scval(name: &[u8], symbol: &[u8], decimal: u32) -> ScVal {
    smap(vec![
        ("decimal", su32(decimal)),
        ("name", sstr_bytes(name)),
        ("symbol", sstr_bytes(symbol)),
    ])
}
pub fn token_scval(addr: &ScAddress, amount: i128) -> ScVal {
    smap(vec![("address", saddr(addr)), ("amount", si128(amount))])
}
/// XDR bytes of an address value, as carried in ITS payloads
pub fn addr_xdr(a: &ScAddress) -> Vec<u8> {
    xdr(&ScVal::Address(a.clone()))
}

impl ItsWorld {
    pub fn new(chain_name: &str, n_users: usize, n_assets: usize) -> ItsWorld {
        let w = World::new();
        let env = &w.env;
        let owner = env.register(Principal, ());
        let operator = env.register(Principal, ());
        let collector = env.register(Principal, ());
        let asset_admin = env.register(Principal, ());
        let users: Vec<Address> = (0..n_users).map(|_| env.register(Principal, ())).collect();
        let keys = Keys::new(2);
        let set = SetSpec { signers: vec![(0, 1), (1, 1)], threshold: 2, nonce: 1 };
        let gw = register_gateway(&w, None, &owner, &operator, &DOMAIN, 0, 1, &[set.raw(&keys)]);
        let gas = env.register(
            axelar_gas_service::AxelarGasService,
            (owner.clone(), collector.clone()),
        );
        let empty_hash: Val = to_val(env, &sbytes(&sha256(b"")));
        let its = env.register(
            interchain_token_service::InterchainTokenService,
            (
                owner.clone(),
                gw.clone(),
                gas.clone(),
                to_val(env, &sstr(HUB_ADDRESS)),
                to_val(env, &sstr(chain_name)),
                empty_hash,
            ),
        );
        let assets: Vec<Address> = (0..n_assets)
            .map(|_| env.register_stellar_asset_contract_v2(asset_admin.clone()).address())
            .collect();
        let gas_token = env.register_stellar_asset_contract_v2(asset_admin.clone()).address();
        let app = env.register(TokenApp, (its.clone(),));
        ItsWorld {
            w,
            gw,
            gas,
            its,
            owner,
            operator,
            collector,
            users,
            keys,
            set,
            chain_name: chain_name.to_string(),
            assets,
            asset_admin,
            gas_token,
            app,
        }
    }

    pub fn sc(&self, a: &Address) -> ScAddress {
        self.w.sc_addr(a)
    }

    /// Native seat for the token ITS deploys for `token_id`: the function set from the current
    /// tree is registered at the deterministic address, the ledger holds nothing there.
    pub fn seat_token(&self, token_id: &[u8; 32]) -> Address {
        let sc = derive_contract_id(&self.sc(&self.its), token_id);
        let addr = addr_from_sc(&self.w, &sc);
        let env = &self.w.env;
        let meta = to_val(env, &metadata_scval(b"seat", b"SEAT", 1));
        env.register_at(
            &addr,
            interchain_token::InterchainToken,
            (
                self.its.clone(),
                Option::<Address>::None,
                to_val(env, &sbytes(token_id)),
                meta,
            ),
        );
        self.w.wipe_contract(&addr);
        addr
    }

    pub fn token_address_of(&self, token_id: &[u8; 32]) -> ScAddress {
        derive_contract_id(&self.sc(&self.its), token_id)
    }

    pub fn mint_asset(&self, asset: &Address, to: &Address, amount: i128) {
        let c = self.w.call(asset, "mint", &[to.to_val(), self.w.v(amount)], Auth::Setup);
        assert!(c.ok, "asset mint failed: {}", c.err);
    }

    pub fn balance(&self, token: &Address, who: &Address) -> Option<i128> {
        self.w
            .query(token, "balance", &[who.to_val()])
            .and_then(|v| i128_of(&v))
    }

    pub fn set_trusted(&self, chain: &str) -> Call {
        let o = [self.owner.clone()];
        self.w.call(
            &self.its,
            "set_trusted_chain",
            &[to_val(&self.w.env, &sstr(chain))],
            Auth::By(&o),
        )
    }
    pub fn remove_trusted(&self, chain: &str) -> Call {
        let o = [self.owner.clone()];
        self.w.call(
            &self.its,
            "remove_trusted_chain",
            &[to_val(&self.w.env, &sstr(chain))],
            Auth::By(&o),
        )
    }

    /// gateway approval of a delivery to `dest` (honest proof from the installed set)
    pub fn approve_delivery(
        &self,
        source_chain: &str,
        message_id: &str,
        source_address: &str,
        dest: &Address,
        payload: &[u8],
    ) -> Call {
        let m = msg_scval(
            &Msg {
                chain: source_chain.into(),
                id: message_id.into(),
                src: source_address.into(),
                dest: 0,
                payload_hash: keccak(payload),
            },
            &self.sc(dest),
        );
        approve(&self.w, &self.gw, &self.keys, &self.set, &DOMAIN, &[m])
    }

    pub fn execute(
        &self,
        target: &Address,
        source_chain: &str,
        message_id: &str,
        source_address: &str,
        payload: &[u8],
    ) -> Call {
        let env = &self.w.env;
        self.w.call(
            target,
            "execute",
            &[
                to_val(env, &sstr(source_chain)),
                to_val(env, &sstr(message_id)),
                to_val(env, &sstr(source_address)),
                to_val(env, &sbytes(payload)),
            ],
            Auth::Nobody,
        )
    }

    pub fn is_approved(&self, source_chain: &str, message_id: &str, source_address: &str, dest: &Address, payload: &[u8]) -> Option<bool> {
        let env = &self.w.env;
        self.w
            .query(
                &self.gw,
                "is_message_approved",
                &[
                    to_val(env, &sstr(source_chain)),
                    to_val(env, &sstr(message_id)),
                    to_val(env, &sstr(source_address)),
                    dest.to_val(),
                    to_val(env, &sbytes(&keccak(payload))),
                ],
            )
            .and_then(|v| bool_of(&v))
    }
    pub fn is_executed(&self, source_chain: &str, message_id: &str) -> Option<bool> {
        let env = &self.w.env;
        self.w
            .query(
                &self.gw,
                "is_message_executed",
                &[to_val(env, &sstr(source_chain)), to_val(env, &sstr(message_id))],
            )
            .and_then(|v| bool_of(&v))
    }
}
