pub mod aux;
pub mod explore;
pub mod gw;
pub mod its;
pub mod refs;
pub mod report;
pub mod world;
pub mod xcheck;
