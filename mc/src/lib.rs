pub mod aux;
pub mod world;
