//! Evidence files, replay files, known-findings list (DESIGN.md 3.6, 5).

use crate::explore::Mismatch;
use std::collections::BTreeMap;
use std::path::PathBuf;

pub fn verif_root() -> PathBuf {
    if let Some(p) = std::env::var_os("AXMC_VERIF_ROOT") {
        return PathBuf::from(p);
    }
    // mc/ lives directly under the verif root
    let here = PathBuf::from(env!("CARGO_MANIFEST_DIR"));
    here.parent().map(|p| p.to_path_buf()).unwrap_or(here)
}

/// `known_findings.txt`: lines
///   `known: property=C04 sig=<signature> :: <what fails>`
///   `fixed: property=C12 <commit> <what failed>`      (documentation only, suppresses nothing)
pub struct Known {
    known: BTreeMap<(String, String), String>,
}

impl Known {
    pub fn load() -> Known {
        let mut known = BTreeMap::new();
        let path = verif_root().join("known_findings.txt");
        if let Ok(txt) = std::fs::read_to_string(&path) {
            for line in txt.lines() {
                let line = line.trim();
                let Some(rest) = line.strip_prefix("known:") else {
                    continue;
                };
                let (head, desc) = match rest.split_once("::") {
                    Some((h, d)) => (h.trim(), d.trim()),
                    None => (rest.trim(), ""),
                };
                let mut prop = String::new();
                let mut sig = String::new();
                for tok in head.split_whitespace() {
                    if let Some(p) = tok.strip_prefix("property=") {
                        prop = p.to_string();
                    } else if let Some(s) = tok.strip_prefix("sig=") {
                        sig = s.to_string();
                    }
                }
                if !prop.is_empty() && !sig.is_empty() {
                    known.insert((prop, sig), desc.to_string());
                }
            }
        }
        Known { known }
    }
    pub fn is_known(&self, prop: &str, sig: &str) -> bool {
        self.known.contains_key(&(prop.to_string(), sig.to_string()))
    }
    pub fn describe(&self, prop: &str, sig: &str) -> String {
        self.known
            .get(&(prop.to_string(), sig.to_string()))
            .cloned()
            .unwrap_or_default()
    }
}

pub fn write_evidence(
    id: &str,
    tier: &str,
    seed: u64,
    level: &str,
    coverage: serde_json::Value,
    assumptions: &[String],
    wall_s: f64,
    violations: u64,
) {
    let dir = verif_root().join("evidence");
    let _ = std::fs::create_dir_all(&dir);
    let mut assumptions: Vec<String> = assumptions.to_vec();
    assumptions.extend([
        "soroban-env-host 22.1 test host (native dispatch, rollback of failed invocations, auth enforcement, TTL) behaves like the network's host".to_string(),
        "contracts run natively (64-bit), not as wasm32; metering limits are off".to_string(),
        "small-scope universe stated in coverage.rule; values outside the alphabet are not covered".to_string(),
    ]);
    let v = serde_json::json!({
        "property_id": id,
        "tier": tier,
        "seed": seed,
        "level": level,
        "coverage": coverage,
        "assumptions": assumptions,
        "wall_s": wall_s,
        "violations": violations,
    });
    std::fs::write(
        dir.join(format!("{}.json", id)),
        serde_json::to_string_pretty(&v).unwrap(),
    )
    .unwrap();
}

pub fn write_replay(
    id: &str,
    tier: &str,
    cfg: usize,
    cfg_label: &str,
    path: &[serde_json::Value],
    path_debug: &[String],
    mm: &Mismatch,
) -> String {
    let dir = verif_root().join("replays");
    let _ = std::fs::create_dir_all(&dir);
    let v = serde_json::json!({
        "property": id,
        "tier": tier,
        "config": cfg,
        "config_label": cfg_label,
        "path": path,
        "path_readable": path_debug,
        "signature": mm.sig,
        "detail": mm.detail,
    });
    let txt = serde_json::to_string_pretty(&v).unwrap();
    let mut h = std::collections::hash_map::DefaultHasher::new();
    std::hash::Hasher::write(&mut h, txt.as_bytes());
    let name = format!("{}-{:08x}.json", id, std::hash::Hasher::finish(&h) as u32);
    let p = dir.join(name);
    std::fs::write(&p, txt).unwrap();
    p.to_string_lossy().to_string()
}
