//! Explicit-state explorer over the real contracts (DESIGN.md 3.4, 3.6).
//!
//! Iterative-deepening DFS with in-place snapshot/restore, a shared visited table
//! `key -> largest remaining depth explored from it`, parallel over (config, prefix) work
//! items. Every transition is executed on the implementation and checked by the scenario's
//! reference model in lock-step.

use crate::report::{self, Known};
use crate::world::World;
use serde::de::DeserializeOwned;
use serde::Serialize;
use std::collections::{BTreeMap, BTreeSet, HashMap};
use std::fmt::Debug;
use std::hash::{Hash, Hasher};
use std::sync::atomic::{AtomicBool, AtomicU64, Ordering};
use std::sync::Mutex;
use std::time::Instant;

#[derive(Clone, Debug, Serialize)]
pub struct Mismatch {
    /// stable signature: which check, at which call site / input class
    pub sig: String,
    pub detail: String,
}

#[derive(Default)]
pub struct StepOut {
    pub mismatches: Vec<Mismatch>,
    /// did the implementation accept the action (non-vacuity statistics)
    pub accepted: bool,
    /// action kind label for per-kind statistics
    pub kind: &'static str,
    /// do not explore below this transition
    pub prune: bool,
    /// number of real contract invocations that were compared against the model in this step
    pub checks: u64,
    /// the model was synchronised with the implementation after a known finding
    pub adopted: bool,
}

impl StepOut {
    pub fn fail(&mut self, sig: impl Into<String>, detail: impl Into<String>) {
        self.mismatches.push(Mismatch {
            sig: sig.into(),
            detail: detail.into(),
        });
    }
    pub fn expect(&mut self, cond: bool, sig: &str, detail: impl FnOnce() -> String) {
        self.checks += 1;
        if !cond {
            self.fail(sig, detail());
        }
    }
}

pub trait Scenario: Sync {
    type Ctx;
    type M: Clone + Hash;
    type A: Clone + Debug + Serialize + DeserializeOwned + Send + Sync;

    fn id(&self) -> &'static str;
    fn n_configs(&self) -> usize;
    fn config_label(&self, cfg: usize) -> String;
    fn build(&self, cfg: usize) -> (Self::Ctx, Self::M);
    fn world<'a>(&self, ctx: &'a Self::Ctx) -> &'a World;
    fn actions(&self, ctx: &Self::Ctx, m: &Self::M) -> Vec<Self::A>;
    fn step(&self, ctx: &Self::Ctx, m: &mut Self::M, a: &Self::A, out: &mut StepOut);
    /// state probes (queries over the whole small universe compared with the model); called by
    /// the engine once per newly visited state, after the transition that reached it
    fn probe(&self, _ctx: &Self::Ctx, _m: &Self::M, _out: &mut StepOut) {}
    /// action kinds that the model says can succeed; a run in which one of them never
    /// succeeds is vacuous (machinery failure)
    fn must_succeed_kinds(&self) -> Vec<&'static str> {
        vec![]
    }
    /// Contracts whose exported functions the engine sweeps after the probes of every new state:
    /// (contract, source directory, functions the scenario drives or reads by name), plus the
    /// addresses that `Address` parameters are filled from. Every *other* exported function found
    /// in the current source tree is called with nobody's authorisation on a snapshot, and if the
    /// call succeeds the probes are run again: what they read must not have changed.
    fn sweep_targets(&self, _ctx: &Self::Ctx) -> (Vec<(soroban_sdk::Address, &'static str, &'static [&'static str])>, Vec<soroban_sdk::Address>) {
        (vec![], vec![])
    }
}

#[derive(Clone, Debug)]
pub struct Opts {
    pub tier: String,
    pub seed: u64,
    /// deepest bound to explore
    pub max_depth: usize,
    /// smallest bound that must complete, else the run is a machinery failure
    pub min_depth: usize,
    /// first bound of the iterative deepening
    pub start_depth: usize,
    pub wall_cap_s: f64,
    pub state_cap: u64,
    pub threads: usize,
    pub level: &'static str,
    pub rule: String,
    pub assumptions: Vec<String>,
    /// after a fixpoint run, re-derive the reachable state count with stateright and compare
    pub xcheck: bool,
}

impl Opts {
    pub fn new(tier: &str, max_depth: usize) -> Opts {
        let threads = std::env::var("AXMC_THREADS")
            .ok()
            .and_then(|s| s.parse().ok())
            .unwrap_or_else(|| {
                std::thread::available_parallelism()
                    .map(|n| n.get())
                    .unwrap_or(4)
                    .min(16)
            });
        Opts {
            tier: tier.to_string(),
            seed: std::env::var("VERIF_SEED")
                .ok()
                .and_then(|s| s.parse().ok())
                .unwrap_or(0),
            max_depth,
            min_depth: 1,
            start_depth: 1,
            wall_cap_s: if tier == "quick" { 120.0 } else { 600.0 },
            state_cap: 40_000_000,
            threads,
            level: "model_checking",
            rule: String::new(),
            assumptions: vec![],
            xcheck: false,
        }
    }
}

const SHARDS: usize = 256;

struct Shared<'d, A> {
    /// states expanded at least once during the whole run (across bounds), for the count of
    /// distinct (state, action) transitions
    distinct: &'d Distinct,
    visited: Vec<Mutex<HashMap<u128, u8>>>,
    stop: AtomicBool,
    capped: AtomicBool,
    calls: AtomicU64,
    transitions: AtomicU64,
    checks: AtomicU64,
    accepted: AtomicU64,
    rejected: AtomicU64,
    traces: AtomicU64,
    dedup_cuts: AtomicU64,
    violation: Mutex<Option<(usize, Vec<A>, Mismatch)>>,
    known_hits: Mutex<BTreeMap<String, (String, u64)>>,
    kinds: Mutex<BTreeMap<&'static str, (u64, u64)>>,
    samples: Mutex<Vec<serde_json::Value>>,
    deadline: Instant,
    state_cap: u64,
    states_now: AtomicU64,
}

pub struct Distinct {
    expanded: Vec<Mutex<std::collections::HashSet<u128>>>,
    transitions: AtomicU64,
    states: AtomicU64,
}
impl Distinct {
    fn new() -> Distinct {
        Distinct {
            expanded: (0..SHARDS).map(|_| Mutex::new(Default::default())).collect(),
            transitions: AtomicU64::new(0),
            states: AtomicU64::new(0),
        }
    }
    fn first_expansion(&self, key: u128, n_actions: usize) {
        let mut g = self.expanded[(key as usize) % SHARDS].lock().unwrap();
        if g.insert(key) {
            self.transitions.fetch_add(n_actions as u64, Ordering::Relaxed);
            self.states.fetch_add(1, Ordering::Relaxed);
        }
    }
}

#[derive(Default)]
struct Local {
    calls: u64,
    transitions: u64,
    checks: u64,
    accepted: u64,
    rejected: u64,
    traces: u64,
    dedup: u64,
    kinds: BTreeMap<&'static str, (u64, u64)>,
}

pub fn key_of<M: Hash>(cfg: usize, state: u128, m: &M) -> u128 {
    let mut h1 = std::collections::hash_map::DefaultHasher::new();
    let mut h2 = std::collections::hash_map::DefaultHasher::new();
    h2.write_u64(0x51ed_270b_7f4a_7c15);
    for h in [&mut h1, &mut h2] {
        h.write_usize(cfg);
        h.write_u128(state);
        m.hash(h);
    }
    ((h1.finish() as u128) << 64) | (h2.finish() as u128)
}

/// Runs scenario code that drives the subject. The scenario files assert that their own honest
/// set-up operations succeed (`assert!(call.ok)` in `build` and inside macro-steps); on a tree that
/// refuses such an operation the assertion fails. That is a verdict about the subject, not a crash
/// of the machinery, so a panic raised from a scenario file (src/bin/*, its.rs, gw.rs) is returned
/// as an error message to be reported as a mismatch; any other panic is propagated.
pub fn guarded<R>(f: impl FnOnce() -> R) -> Result<R, String> {
    match std::panic::catch_unwind(std::panic::AssertUnwindSafe(f)) {
        Ok(r) => Ok(r),
        Err(payload) => {
            let info = crate::world::LAST_PANIC.with(|p| p.borrow_mut().take());
            match info {
                Some((file, line, msg)) if file.starts_with("src/bin/") || file.ends_with("src/its.rs") || file.ends_with("src/gw.rs") => {
                    Err(format!("{}:{}: {}", file, line, msg))
                }
                _ => std::panic::resume_unwind(payload),
            }
        }
    }
}

/// returns true when the state must be expanded (not yet explored with that much remaining depth)
fn visit<A>(sh: &Shared<'_, A>, key: u128, remaining: u8) -> bool {
    let shard = &sh.visited[(key as usize) % SHARDS];
    let mut g = shard.lock().unwrap();
    match g.get_mut(&key) {
        Some(r) => {
            if *r >= remaining {
                false
            } else {
                *r = remaining;
                true
            }
        }
        None => {
            g.insert(key, remaining);
            sh.states_now.fetch_add(1, Ordering::Relaxed);
            true
        }
    }
}

struct Walker<'a, S: Scenario> {
    s: &'a S,
    sh: &'a Shared<'a, S::A>,
    trail: Vec<bool>,
    /// the world being driven; replaced by a fresh one (with the current ledger snapshot
    /// installed) when the host has accumulated too many objects
    live: Option<std::rc::Rc<S::Ctx>>,
    known: &'a Known,
    local: Local,
    cfg: usize,
    bound: usize,
}

impl<'a, S: Scenario> Walker<'a, S> {
    /// Execute one transition; returns false when exploration below must not continue.
    fn do_step(
        &mut self,
        ctx: &S::Ctx,
        m: &mut S::M,
        a: &S::A,
        path: &Vec<S::A>,
        count: bool,
    ) -> bool {
        let mut out = StepOut::default();
        let calls0 = self.s.world(ctx).calls.get();
        if let Err(msg) = guarded(|| self.s.step(ctx, m, a, &mut out)) {
            out.fail("setup.operation-refused", format!("an honest set-up operation inside this step was refused: {}", msg));
        }
        self.local.calls += self.s.world(ctx).calls.get() - calls0;
        self.trail.push(out.accepted);
        if count {
            self.local.transitions += 1;
            self.local.checks += out.checks;
            let e = self.local.kinds.entry(out.kind).or_insert((0, 0));
            if out.accepted {
                self.local.accepted += 1;
                e.0 += 1;
            } else {
                self.local.rejected += 1;
                e.1 += 1;
            }
        }
        if count && self.local.transitions % 64 == 1 && self.sh.states_now.load(Ordering::Relaxed) < 1_000_000 {
            let full = self.sh.samples.lock().unwrap().len() >= 4;
            if !full {
                self.maybe_sample(path);
            }
        }
        let mut cont = !out.prune;
        for mm in out.mismatches {
            if self.known.is_known(self.s.id(), &mm.sig) {
                let mut g = self.sh.known_hits.lock().unwrap();
                let e = g.entry(mm.sig.clone()).or_insert((mm.detail.clone(), 0));
                e.1 += 1;
                if !out.adopted {
                    cont = false;
                }
            } else {
                let mut g = self.sh.violation.lock().unwrap();
                if g.is_none() {
                    *g = Some((self.cfg, path.clone(), mm));
                }
                self.sh.stop.store(true, Ordering::SeqCst);
                return false;
            }
        }
        cont
    }

    fn dfs(&mut self, m: &S::M, depth: usize, path: &mut Vec<S::A>) {
        if self.sh.stop.load(Ordering::Relaxed) {
            return;
        }
        let ctx = self.live.clone().unwrap();
        let w = self.s.world(&ctx);
        let key = key_of(self.cfg, w.state_hash(), m);
        let remaining = (self.bound - depth) as u8;
        if !visit(self.sh, key, remaining) {
            self.local.dedup += 1;
            self.local.traces += 1;
            return;
        }
        if !self.run_probe(&ctx, m, path) {
            return;
        }
        if remaining == 0 {
            self.local.traces += 1;
            if self.local.traces % 4096 == 1 {
                self.maybe_sample(path);
                if Instant::now() > self.sh.deadline
                    || self.sh.states_now.load(Ordering::Relaxed) > self.sh.state_cap
                    || rss_gb() > 40.0
                {
                    self.sh.capped.store(true, Ordering::SeqCst);
                    self.sh.stop.store(true, Ordering::SeqCst);
                }
            }
            return;
        }
        let acts = self.s.actions(&ctx, m);
        self.sh.distinct.first_expansion(key, acts.len());
        let snap = w.snap();
        drop(ctx);
        for a in acts {
            if self.sh.stop.load(Ordering::Relaxed) {
                return;
            }
            // a descendant may have replaced the world
            let ctx = self.live.clone().unwrap();
            let mut m2 = m.clone();
            path.push(a.clone());
            let cont = self.do_step(&ctx, &mut m2, &a, path, true);
            drop(ctx);
            if cont {
                self.dfs(&m2, depth + 1, path);
            } else {
                self.local.traces += 1;
            }
            path.pop();
            self.trail.pop();
            let ctx = self.live.clone().unwrap();
            let w = self.s.world(&ctx);
            if w.calls.get() > world_call_budget() {
                // host objects are never freed inside one Env: move on to a fresh host and
                // install this node's ledger snapshot there (ledger entries are host-independent)
                drop(ctx);
                self.live = None;
                let (fresh, _) = self.s.build(self.cfg);
                self.s.world(&fresh).restore(&snap);
                self.live = Some(std::rc::Rc::new(fresh));
            } else {
                w.restore(&snap);
            }
        }
    }

    /// Runs the scenario's state probes on a newly visited state (probes are a function of
    /// the state, so once per state suffices). Returns false when exploration must stop here.
    fn run_probe(&mut self, ctx: &S::Ctx, m: &S::M, path: &Vec<S::A>) -> bool {
        let w = self.s.world(ctx);
        let snap = w.snap();
        let mut out = StepOut::default();
        let calls0 = w.calls.get();
        probe_and_sweep(self.s, ctx, m, &mut out);
        self.local.calls += w.calls.get() - calls0;
        w.restore(&snap);
        self.local.checks += out.checks;
        let mut cont = true;
        for mm in out.mismatches {
            if self.known.is_known(self.s.id(), &mm.sig) {
                let mut g = self.sh.known_hits.lock().unwrap();
                let e = g.entry(mm.sig.clone()).or_insert((mm.detail.clone(), 0));
                e.1 += 1;
                cont = false;
            } else {
                let mut g = self.sh.violation.lock().unwrap();
                if g.is_none() {
                    *g = Some((self.cfg, path.clone(), mm));
                }
                self.sh.stop.store(true, Ordering::SeqCst);
                return false;
            }
        }
        cont
    }

    fn maybe_sample(&mut self, path: &Vec<S::A>) {
        let mut g = self.sh.samples.lock().unwrap();
        if g.len() < 4 {
            g.push(serde_json::json!({
                "config": self.s.config_label(self.cfg),
                "path": path.iter().zip(self.trail.iter()).map(|(a, ok)| format!("{} => {}", truncate(&format!("{:?}", a), 300), if *ok { "accepted" } else { "rejected/no-op" })).collect::<Vec<_>>(),
            }));
        }
    }

    fn flush(&mut self) {
        let l = std::mem::take(&mut self.local);
        self.sh.calls.fetch_add(l.calls, Ordering::Relaxed);
        self.sh.transitions.fetch_add(l.transitions, Ordering::Relaxed);
        self.sh.checks.fetch_add(l.checks, Ordering::Relaxed);
        self.sh.accepted.fetch_add(l.accepted, Ordering::Relaxed);
        self.sh.rejected.fetch_add(l.rejected, Ordering::Relaxed);
        self.sh.traces.fetch_add(l.traces, Ordering::Relaxed);
        self.sh.dedup_cuts.fetch_add(l.dedup, Ordering::Relaxed);
        let mut g = self.sh.kinds.lock().unwrap();
        for (k, (a, r)) in l.kinds {
            let e = g.entry(k).or_insert((0, 0));
            e.0 += a;
            e.1 += r;
        }
    }
}

#[derive(Clone, Debug)]
struct Item {
    cfg: usize,
    prefix: Vec<usize>,
    /// the prefix ends in a state that another item owns (the root, or the state behind an
    /// earlier root action): execute and check the prefix, explore nothing below it
    leaf: bool,
}

/// Replays a work item's prefix and explores below it.
fn run_item<S: Scenario>(
    s: &S,
    sh: &Shared<'_, S::A>,
    known: &Known,
    item: &Item,
    bound: usize,
    cache: &mut HashMap<usize, (std::rc::Rc<S::Ctx>, S::M, crate::world::Snap)>,
) {
    // host objects are never freed within one Env: rebuild the world after many calls
    let stale = cache
        .get(&item.cfg)
        .map(|(ctx, _, _)| s.world(ctx).calls.get() > world_call_budget())
        .unwrap_or(false);
    if stale {
        cache.remove(&item.cfg);
    }
    if !cache.contains_key(&item.cfg) {
        let (ctx, m) = s.build(item.cfg);
        let snap = s.world(&ctx).snap();
        cache.insert(item.cfg, (std::rc::Rc::new(ctx), m, snap));
    }
    let (ctx_rc, m0, root) = cache.get(&item.cfg).unwrap().clone();
    let ctx: &S::Ctx = &ctx_rc;
    let m0 = &m0;
    let root = &root;
    let w = s.world(ctx);
    w.restore(root);
    let mut wk = Walker {
        s,
        sh,
        known,
        local: Local::default(),
        cfg: item.cfg,
        bound,
        trail: vec![],
        live: Some(ctx_rc.clone()),
    };
    let mut m = m0.clone();
    let mut path: Vec<S::A> = vec![];
    let mut ok = true;
    for (d, &ix) in item.prefix.iter().enumerate() {
        // the owner of a prefix transition is the item whose later indices are all zero
        let owner = item.prefix[d + 1..].iter().all(|&j| j == 0);
        if owner {
            let key = key_of(item.cfg, w.state_hash(), &m);
            if visit(sh, key, (bound - d) as u8) && !wk.run_probe(ctx, &m, &path) {
                ok = false;
                break;
            }
        }
        let acts = s.actions(ctx, &m);
        if owner {
            sh.distinct.first_expansion(key_of(item.cfg, w.state_hash(), &m), acts.len());
        }
        if ix >= acts.len() {
            ok = false;
            break;
        }
        let a = acts[ix].clone();
        path.push(a.clone());
        let cont = wk.do_step(ctx, &mut m, &a, &path, owner);
        if !cont {
            if owner {
                wk.local.traces += 1;
            }
            ok = false;
            break;
        }
    }
    if ok && item.leaf {
        wk.local.dedup += 1;
        wk.local.traces += 1;
    } else if ok {
        wk.dfs(&m, item.prefix.len(), &mut path);
    }
    wk.flush();
    // the walker may have moved to a fresh host: keep that one
    let live = wk.live.take().unwrap();
    s.world(&live).restore(root);
    cache.insert(item.cfg, (live, m0.clone(), root.clone()));
}

fn make_items<S: Scenario>(s: &S, bound: usize, known: &Known) -> Vec<Item> {
    // split at depth 2 when possible (depth 1 when the bound is 1)
    let mut items = vec![];
    let dd = Distinct::new();
    let dummy: Shared<S::A> = new_shared(&dd, Instant::now() + std::time::Duration::from_secs(3600), u64::MAX);
    for cfg in 0..s.n_configs() {
        let (ctx, m0) = s.build(cfg);
        let w = s.world(&ctx);
        let root = w.snap();
        let acts = s.actions(&ctx, &m0);
        if acts.is_empty() {
            // nothing to do from the root, but its probes must still run
            items.push(Item { cfg, prefix: vec![], leaf: false });
            continue;
        }
        if bound == 1 {
            // chunk the root actions so that every item has a fair amount of work
            for i in 0..acts.len() {
                items.push(Item { cfg, prefix: vec![i], leaf: false });
            }
            continue;
        }
        let mut seen: std::collections::HashSet<u128> = std::collections::HashSet::new();
        seen.insert(key_of(cfg, w.state_hash(), &m0));
        for (i, a) in acts.iter().enumerate() {
            let mut m = m0.clone();
            let mut wk = Walker {
                s,
                sh: &dummy,
                known,
                local: Local::default(),
                cfg,
                bound,
                trail: vec![],
                live: None,
            };
            let cont = wk.do_step(&ctx, &mut m, a, &vec![a.clone()], false);
            let n = if cont { s.actions(&ctx, &m).len() } else { 0 };
            // a root action that leads back to the root state or to the state behind an earlier
            // root action is executed and checked once; the state itself is expanded (with at
            // least as much remaining depth) by the items of its first occurrence
            let fresh = !cont || seen.insert(key_of(cfg, w.state_hash(), &m));
            w.restore(&root);
            if !fresh {
                items.push(Item { cfg, prefix: vec![i], leaf: true });
                continue;
            }
            if n == 0 {
                items.push(Item { cfg, prefix: vec![i, 0], leaf: false });
            }
            for j in 0..n {
                items.push(Item { cfg, prefix: vec![i, j], leaf: false });
            }
        }
    }
    items
}

fn new_shared<A>(distinct: &Distinct, deadline: Instant, state_cap: u64) -> Shared<'_, A> {
    Shared {
        distinct,
        visited: (0..SHARDS).map(|_| Mutex::new(HashMap::new())).collect(),
        stop: AtomicBool::new(false),
        capped: AtomicBool::new(false),
        calls: AtomicU64::new(0),
        transitions: AtomicU64::new(0),
        checks: AtomicU64::new(0),
        accepted: AtomicU64::new(0),
        rejected: AtomicU64::new(0),
        traces: AtomicU64::new(0),
        dedup_cuts: AtomicU64::new(0),
        violation: Mutex::new(None),
        known_hits: Mutex::new(BTreeMap::new()),
        kinds: Mutex::new(BTreeMap::new()),
        samples: Mutex::new(vec![]),
        deadline,
        state_cap,
        states_now: AtomicU64::new(0),
    }
}

/// Deterministic pseudo-random permutation of the work items (only the hand-out order).
fn shuffle<T>(v: &mut Vec<T>, seed: u64) {
    let mut x = seed.wrapping_mul(0x9e3779b97f4a7c15) ^ 0xdeadbeefcafef00d;
    for i in (1..v.len()).rev() {
        x ^= x << 13;
        x ^= x >> 7;
        x ^= x << 17;
        let j = (x % (i as u64 + 1)) as usize;
        v.swap(i, j);
    }
}

/// Determinism self-test: a fixed canary path executed on two fresh worlds and once with
/// snapshot/restore detours must give identical observations.
fn self_test<S: Scenario>(s: &S) -> Result<(), String> {
    let run = |detour: bool| -> Vec<(u128, bool, usize)> {
        let (ctx, mut m) = s.build(0);
        let w = s.world(&ctx);
        let mut obs = vec![];
        for stepno in 0..5usize {
            let acts = s.actions(&ctx, &m);
            if acts.is_empty() {
                break;
            }
            let a = acts[(stepno * 7 + 3) % acts.len()].clone();
            if detour {
                // take another action first, then roll it back
                let snap = w.snap();
                let b = acts[(stepno * 5 + 1) % acts.len()].clone();
                let mut m2 = m.clone();
                let mut o = StepOut::default();
                s.step(&ctx, &mut m2, &b, &mut o);
                w.restore(&snap);
            }
            let mut o = StepOut::default();
            s.step(&ctx, &mut m, &a, &mut o);
            {
                let snap = w.snap();
                s.probe(&ctx, &m, &mut o);
                w.restore(&snap);
            }
            obs.push((
                key_of(0, w.state_hash(), &m),
                o.accepted,
                o.mismatches.len(),
            ));
        }
        obs
    };
    let a = run(false);
    let b = run(false);
    let c = run(true);
    if a != b {
        return Err(format!("two fresh runs differ: {:?} vs {:?}", a, b));
    }
    if a != c {
        return Err(format!(
            "snapshot/restore run differs from fresh run: {:?} vs {:?}",
            a, c
        ));
    }
    Ok(())
}

/// The scenario's probes on the current state, then the sweep of exported functions the scenario
/// does not know (see `Scenario::sweep_targets`). The caller snapshots and restores around it.
pub fn probe_and_sweep<S: Scenario>(s: &S, ctx: &S::Ctx, m: &S::M, out: &mut StepOut) {
    let w = s.world(ctx);
    if let Err(msg) = guarded(|| s.probe(ctx, m, out)) {
        out.fail("setup.operation-refused", format!("an honest set-up operation inside the probes was refused: {}", msg));
    }
    let (targets, addresses) = s.sweep_targets(ctx);
    if targets.is_empty() || !out.mismatches.is_empty() {
        return;
    }
    let snap = w.snap();
    let t: Vec<(&soroban_sdk::Address, &str, &[&str])> = targets.iter().map(|(a, d, k)| (a, *d, *k)).collect();
    for (contract, func, args) in crate::inventory::unknown_calls(w, s.id(), &t, &addresses, 32) {
        w.restore(&snap);
        let call = w.call(&contract, &func, &args, crate::world::Auth::Nobody);
        if call.ok {
            let mut o = StepOut::default();
            let _ = guarded(|| s.probe(ctx, m, &mut o));
            out.checks += o.checks;
            for mm in o.mismatches {
                out.fail(
                    "unknown-entry-point.changed-what-the-probes-read",
                    format!("after `{}` (not among the entry points the check knows) was called with nobody's authorisation: {} :: {}", func, mm.sig, mm.detail),
                );
            }
        }
    }
    w.restore(&snap);
}

/// Replays a path from a fresh world; returns the mismatches of the last step.
pub fn replay_path<S: Scenario>(s: &S, cfg: usize, path: &[S::A]) -> (Vec<Mismatch>, Vec<bool>) {
    let (ctx, mut m) = match guarded(|| s.build(cfg)) {
        Ok(x) => x,
        Err(msg) => {
            return (vec![Mismatch { sig: "setup.operation-refused".into(), detail: format!("an honest set-up operation of the configuration was refused: {}", msg) }], vec![]);
        }
    };
    let mut acc = vec![];
    // the initial state is probed too (a violation can sit in the root state)
    let mut last = {
        let mut o = StepOut::default();
        let w = s.world(&ctx);
        let snap = w.snap();
        probe_and_sweep(s, &ctx, &m, &mut o);
        w.restore(&snap);
        o.mismatches
    };
    for a in path {
        let mut o = StepOut::default();
        if let Err(msg) = guarded(|| s.step(&ctx, &mut m, a, &mut o)) {
            o.fail("setup.operation-refused", format!("an honest set-up operation inside this step was refused: {}", msg));
            last = o.mismatches;
            acc.push(false);
            break;
        }
        let w = s.world(&ctx);
        let snap = w.snap();
        probe_and_sweep(s, &ctx, &m, &mut o);
        w.restore(&snap);
        acc.push(o.accepted);
        last = o.mismatches;
    }
    (last, acc)
}

pub struct Outcome {
    pub exit_code: i32,
}

/// Runs the exploration, writes evidence, prints KNOWN-FINDING / VIOLATION lines.
pub fn run<S: Scenario>(s: &S, opts: &Opts) -> Outcome {
    let t0 = Instant::now();
    let known = Known::load();
    let id = s.id();

    // every configuration's world is built once up front: a tree that refuses one of the honest
    // set-up operations is reported as a violation (with an empty path), not as a crash
    let mut setup_violation: Option<(usize, Mismatch)> = None;
    for cfg in 0..s.n_configs() {
        if let Err(msg) = guarded(|| {
            let _ = s.build(cfg);
        }) {
            setup_violation = Some((cfg, Mismatch { sig: "setup.operation-refused".into(), detail: format!("an honest set-up operation of the configuration was refused: {}", msg) }));
            break;
        }
    }

    if setup_violation.is_none() {
        if let Err(e) = self_test(s) {
            eprintln!("MACHINERY-FAILURE {}: determinism self-test failed: {}", id, e);
            return Outcome { exit_code: 2 };
        }
    }

    let deadline = t0 + std::time::Duration::from_secs_f64(opts.wall_cap_s);
    let mut total_calls = 0u64;
    let mut total_transitions = 0u64;
    let mut total_checks = 0u64;
    let mut total_traces = 0u64;
    let mut last_states = 0u64;
    let mut union_states: u64 = 0;
    let mut bound_completed = 0usize;
    let mut fixpoint = false;
    let mut capped = false;
    let mut acc = 0u64;
    let mut rej = 0u64;
    let mut kinds_total: BTreeMap<&'static str, (u64, u64)> = BTreeMap::new();
    let mut known_hits_total: BTreeMap<String, (String, u64)> = BTreeMap::new();
    let mut samples: Vec<serde_json::Value> = vec![];
    let mut per_bound: Vec<serde_json::Value> = vec![];
    let mut violation: Option<(usize, Vec<S::A>, Mismatch)> = setup_violation.map(|(cfg, mm)| (cfg, vec![], mm));

    let distinct = Distinct::new();
    let mut bound = opts.start_depth.max(1).min(opts.max_depth);
    while bound <= opts.max_depth && violation.is_none() {
        let tb = Instant::now();
        let sh: Shared<S::A> = new_shared(&distinct, deadline, opts.state_cap);
        let mut items = make_items(s, bound, &known);
        shuffle(&mut items, opts.seed);
        let next = AtomicU64::new(0);
        std::thread::scope(|scope| {
            for _ in 0..opts.threads.min(items.len().max(1)) {
                scope.spawn(|| {
                    let mut cache = HashMap::new();
                    loop {
                        if sh.stop.load(Ordering::Relaxed) {
                            break;
                        }
                        let i = next.fetch_add(1, Ordering::Relaxed) as usize;
                        if i >= items.len() {
                            break;
                        }
                        run_item(s, &sh, &known, &items[i], bound, &mut cache);
                        if Instant::now() > sh.deadline {
                            sh.capped.store(true, Ordering::SeqCst);
                            sh.stop.store(true, Ordering::SeqCst);
                        }
                    }
                });
            }
        });
        let states: u64 = sh.visited.iter().map(|m| m.lock().unwrap().len() as u64).sum();
        let zeros: u64 = sh
            .visited
            .iter()
            .map(|m| m.lock().unwrap().values().filter(|r| **r == 0).count() as u64)
            .sum();
        total_calls += sh.calls.load(Ordering::Relaxed);
        total_transitions += sh.transitions.load(Ordering::Relaxed);
        total_checks += sh.checks.load(Ordering::Relaxed);
        total_traces += sh.traces.load(Ordering::Relaxed);
        acc += sh.accepted.load(Ordering::Relaxed);
        rej += sh.rejected.load(Ordering::Relaxed);
        for (k, (a, r)) in sh.kinds.lock().unwrap().iter() {
            let e = kinds_total.entry(k).or_insert((0, 0));
            e.0 += a;
            e.1 += r;
        }
        for (k, v) in sh.known_hits.lock().unwrap().iter() {
            let e = known_hits_total.entry(k.clone()).or_insert((v.0.clone(), 0));
            e.1 += v.1;
        }
        if samples.len() < 4 {
            samples.extend(sh.samples.lock().unwrap().iter().cloned());
            samples.truncate(4);
        }
        per_bound.push(serde_json::json!({
            "bound": bound, "states": states, "unexpanded_leaf_states": zeros,
            "transitions": sh.transitions.load(Ordering::Relaxed),
            "dedup_cuts": sh.dedup_cuts.load(Ordering::Relaxed),
            "wall_s": tb.elapsed().as_secs_f64(),
        }));
        union_states = union_states.max(states);
        if let Some(v) = sh.violation.lock().unwrap().take() {
            violation = Some(v);
            break;
        }
        if sh.capped.load(Ordering::SeqCst) {
            capped = true;
            break;
        }
        bound_completed = bound;
        last_states = states;
        if zeros == 0 {
            fixpoint = true;
            break;
        }
        bound += 1;
    }
    let _ = last_states;

    // ---- report
    for (sig, (detail, n)) in &known_hits_total {
        println!(
            "KNOWN-FINDING: property={} {} [{}] (hit {} times; e.g. {})",
            id,
            known.describe(id, sig),
            sig,
            n,
            truncate(detail, 300)
        );
    }

    let mut exit_code = 0;
    let mut violations = 0;
    let mut replay_file = String::new();
    if let Some((cfg, path, mm)) = &violation {
        // confirm by two independent replays from fresh worlds
        let (m1, a1) = replay_path(s, *cfg, path);
        let (m2, a2) = replay_path(s, *cfg, path);
        let same = m1.iter().map(|m| &m.sig).collect::<Vec<_>>()
            == m2.iter().map(|m| &m.sig).collect::<Vec<_>>()
            && a1 == a2;
        let reproduced = m1.iter().any(|m| m.sig == mm.sig);
        if !same || !reproduced {
            eprintln!(
                "MACHINERY-FAILURE {}: violation did not replay deterministically (same={}, reproduced={}): {:?}",
                id, same, reproduced, mm
            );
            exit_code = 2;
        } else {
            violations = 1;
            replay_file = report::write_replay(
                id,
                &opts.tier,
                *cfg,
                &s.config_label(*cfg),
                &path.iter().map(|a| serde_json::to_value(a).unwrap()).collect::<Vec<_>>(),
                &path.iter().map(|a| format!("{:?}", a)).collect::<Vec<_>>(),
                mm,
            );
            println!("violation: {} :: {}", mm.sig, truncate(&mm.detail, 1500));
            println!("VIOLATION property={} replay={}", id, replay_file);
            exit_code = 1;
        }
    }

    // non-vacuity
    let mut vacuous = vec![];
    if violation.is_none() {
        for k in s.must_succeed_kinds() {
            let (a, _) = kinds_total.get(k).cloned().unwrap_or((0, 0));
            if a == 0 {
                vacuous.push(k);
            }
        }
    }
    if !vacuous.is_empty() && exit_code == 0 {
        eprintln!(
            "MACHINERY-FAILURE {}: vacuous run, action kinds that never succeeded: {:?}",
            id, vacuous
        );
        exit_code = 2;
    }
    if exit_code == 0 && bound_completed < opts.min_depth && !fixpoint {
        eprintln!(
            "MACHINERY-FAILURE {}: cap hit before the minimum bound ({} < {})",
            id, bound_completed, opts.min_depth
        );
        exit_code = 2;
    }

    let exhaustive = !capped && violation.is_none();
    let kinds_json: BTreeMap<String, serde_json::Value> = kinds_total
        .iter()
        .map(|(k, (a, r))| (k.to_string(), serde_json::json!({"accepted": a, "rejected": r})))
        .collect();
    let distinct_kinds: BTreeSet<&&str> = kinds_total.keys().collect();
    let mut cov = serde_json::json!({
        "states": union_states.max(1),
        "transitions": total_transitions.max(1),
        "traces_validated_against_impl": total_traces,
        "contract_invocations": total_calls,
        "model_vs_impl_comparisons": total_checks,
        "distinct_states_expanded": distinct.states.load(Ordering::Relaxed),
        "distinct_transitions": distinct.transitions.load(Ordering::Relaxed),
        "samples": samples,
        "exhaustive": exhaustive,
        "fixpoint": fixpoint,
        "bound_completed": bound_completed,
        "max_bound_requested": opts.max_depth,
        "capped": capped,
        "configs": s.n_configs(),
        "per_bound": per_bound,
        "accepted_transitions": acc,
        "rejected_transitions": rej,
        "action_kinds": kinds_json,
        "distinct_action_kinds": distinct_kinds.len(),
        "known_findings_hit": known_hits_total.keys().collect::<Vec<_>>(),
        "rule": opts.rule,
        "threads": opts.threads,
        "replay": replay_file,
    });
    if opts.level == "exploration" {
        // input-space sweeps: one case = one (base state, input) pair, each executed and compared once
        cov["evaluations"] = serde_json::json!(total_transitions.max(1));
        cov["distinct_nontrivial"] = serde_json::json!(distinct.transitions.load(Ordering::Relaxed));
    }
    report::write_evidence(
        id,
        &opts.tier,
        opts.seed,
        opts.level,
        cov,
        &opts.assumptions,
        t0.elapsed().as_secs_f64(),
        violations,
    );
    println!(
        "{} {}: states={} transitions={} traces={} bound_completed={} fixpoint={} exhaustive={} accepted={} rejected={} wall={:.1}s",
        id, opts.tier, union_states, total_transitions, total_traces, bound_completed, fixpoint, exhaustive, acc, rej,
        t0.elapsed().as_secs_f64()
    );
    Outcome { exit_code }
}

/// calls after which a worker moves to a fresh host (AXMC_WORLD_CALLS overrides, for tests)
pub fn world_call_budget() -> u64 {
    static V: std::sync::OnceLock<u64> = std::sync::OnceLock::new();
    *V.get_or_init(|| {
        std::env::var("AXMC_WORLD_CALLS")
            .ok()
            .and_then(|s| s.parse().ok())
            .unwrap_or(30_000)
    })
}

/// resident set size of this process in GiB (memory cap inside the engine)
pub fn rss_gb() -> f64 {
    std::fs::read_to_string("/proc/self/statm")
        .ok()
        .and_then(|t| t.split_whitespace().nth(1).and_then(|x| x.parse::<f64>().ok()))
        .map(|pages| pages * 4096.0 / (1u64 << 30) as f64)
        .unwrap_or(0.0)
}

pub fn truncate(s: &str, n: usize) -> String {
    if s.len() <= n {
        s.to_string()
    } else {
        let mut end = n;
        while !s.is_char_boundary(end) {
            end -= 1;
        }
        format!("{}...", &s[..end])
    }
}

/// `replay <file>` support: re-executes a stored path without the explorer.
pub fn replay_file<S: Scenario>(s: &S, file: &str) -> i32 {
    let v: serde_json::Value = serde_json::from_str(&std::fs::read_to_string(file).unwrap()).unwrap();
    let cfg = v["config"].as_u64().unwrap() as usize;
    let path: Vec<S::A> = v["path"]
        .as_array()
        .unwrap()
        .iter()
        .map(|a| serde_json::from_value(a.clone()).unwrap())
        .collect();
    let (mm, acc) = replay_path(s, cfg, &path);
    println!("replayed {} steps, accepted flags {:?}", path.len(), acc);
    if mm.is_empty() {
        println!("no mismatch on replay");
        0
    } else {
        for m in &mm {
            println!("mismatch: {} :: {}", m.sig, truncate(&m.detail, 2000));
        }
        println!("VIOLATION property={} replay={}", s.id(), file);
        1
    }
}

/// Cross-check of a completed fixpoint run: stateright's BFS over the same scenario must reach
/// exactly as many unique states and find no mismatch. The result is added to the evidence file.
fn crosscheck_with_stateright<S: Scenario + Send + 'static>(s: std::sync::Arc<S>, opts: &Opts) -> i32
where
    S::Ctx: 'static,
    S::M: 'static,
{
    let path = report::verif_root().join("evidence").join(format!("{}.json", s.id()));
    let Ok(txt) = std::fs::read_to_string(&path) else { return 2 };
    let Ok(mut ev) = serde_json::from_str::<serde_json::Value>(&txt) else { return 2 };
    if ev["coverage"]["fixpoint"] != serde_json::json!(true) {
        return 0;
    }
    let t0 = Instant::now();
    let r = crate::xcheck::run(s.clone(), opts.threads);
    let ours = ev["coverage"]["states"].as_u64().unwrap_or(0);
    let agree = r.unique_states as u64 == ours && r.violation_path.is_none();
    ev["coverage"]["stateright_crosscheck"] = serde_json::json!({
        "unique_states": r.unique_states,
        "explorer_states": ours,
        "agree": agree,
        "wall_s": t0.elapsed().as_secs_f64(),
    });
    let _ = std::fs::write(&path, serde_json::to_string_pretty(&ev).unwrap());
    println!(
        "{} cross-check: stateright BFS reached {} unique states, explorer fixpoint has {} -> {}",
        s.id(), r.unique_states, ours, if agree { "agree" } else { "DISAGREE" }
    );
    if agree {
        0
    } else {
        eprintln!("MACHINERY-FAILURE {}: explorer and stateright disagree on the reachable state space", s.id());
        2
    }
}

/// Standard `main` for a property binary: `<bin> quick|thorough` or `<bin> replay <file>`.
pub fn main_for<S: Scenario + Send + 'static>(mk: impl Fn(&str) -> (S, Opts)) -> !
where
    S::Ctx: 'static,
    S::M: 'static,
{
    let args: Vec<String> = std::env::args().collect();
    let mode = args.get(1).map(|s| s.as_str()).unwrap_or("quick");
    if mode == "xcheck" {
        // independent cross-check of the reachable state count with stateright's BFS
        let tier = args.get(2).map(|s| s.as_str()).unwrap_or("quick");
        let (s, opts) = mk(tier);
        let t0 = Instant::now();
        let s = std::sync::Arc::new(s);
        let r = crate::xcheck::run(s.clone(), opts.threads);
        println!(
            "{} xcheck {}: stateright unique_states={} violation={:?} wall={:.1}s",
            s.id(), tier, r.unique_states, r.violation_path, t0.elapsed().as_secs_f64()
        );
        std::process::exit(if r.violation_path.is_some() { 1 } else { 0 });
    }
    if mode == "replay" {
        let v: serde_json::Value =
            serde_json::from_str(&std::fs::read_to_string(&args[2]).expect("replay file")).expect("replay json");
        let tier = v["tier"].as_str().unwrap_or("thorough").to_string();
        let (s, _) = mk(&tier);
        std::process::exit(replay_file(&s, &args[2]));
    }
    let tier = if mode == "thorough" { "thorough" } else { "quick" };
    let (s, opts) = mk(tier);
    let s = std::sync::Arc::new(s);
    let out = run(&*s, &opts);
    let mut code = out.exit_code;
    if code == 0 && opts.xcheck {
        code = crosscheck_with_stateright(s.clone(), &opts);
    }
    std::process::exit(code);
}
