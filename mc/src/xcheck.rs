//! Independent cross-check of the hand-rolled explorer with stateright (explicit-state BFS).
//!
//! A stateright state is (canonical key, shortest action path); identity is the key. Because
//! the host is `!Send`, every `actions` / `next_state` call re-creates the state on a
//! thread-local world by replaying the path from the root snapshot (cost x depth, affordable
//! only for the small closed state spaces). The number of unique states stateright reaches
//! must equal the number of states in the explorer's fixpoint, and stateright's `always`
//! property "no model/implementation mismatch" must hold on every transition.

use crate::explore::{key_of, Scenario, StepOut};
use crate::world::Snap;
use stateright::{Checker, Model, Property};
use std::any::Any;
use std::cell::RefCell;
use std::collections::HashMap;
use std::hash::{Hash, Hasher};

#[derive(Clone, Debug)]
pub struct XState {
    pub key: u128,
    pub path: Vec<usize>,
    pub bad: bool,
}
impl PartialEq for XState {
    fn eq(&self, o: &Self) -> bool {
        self.key == o.key && self.bad == o.bad
    }
}
impl Eq for XState {}
impl Hash for XState {
    fn hash<H: Hasher>(&self, h: &mut H) {
        self.key.hash(h);
        self.bad.hash(h);
    }
}

thread_local! {
    static WORLDS: RefCell<HashMap<(usize, usize), Box<dyn Any>>> = RefCell::new(HashMap::new());
}

pub struct XModel<S: Scenario> {
    pub s: std::sync::Arc<S>,
    pub cfg: usize,
    /// probe verdict per state key: probes are a function of the state, so each state is probed
    /// once however many transitions lead to it (stateright only deduplicates after `next_state`)
    pub probed: std::sync::Mutex<HashMap<u128, bool>>,
}

impl<S: Scenario + Send + 'static> XModel<S>
where
    S::Ctx: 'static,
    S::M: 'static,
{
    /// Re-creates the state reached by `path` on this thread's world and hands it to `f`.
    fn at<R>(&self, path: &[usize], f: impl FnOnce(&S::Ctx, &mut S::M, bool, bool) -> R) -> R {
        let slot = (std::sync::Arc::as_ptr(&self.s) as usize, self.cfg);
        WORLDS.with(|ws| {
            let mut ws = ws.borrow_mut();
            let stale = ws
                .get(&slot)
                .and_then(|b| b.downcast_ref::<(S::Ctx, S::M, Snap)>())
                .map(|(ctx, _, _)| self.s.world(ctx).calls.get() > 100_000)
                .unwrap_or(false);
            if stale {
                ws.remove(&slot);
            }
            let entry = ws.entry(slot).or_insert_with(|| {
                let (ctx, m) = self.s.build(self.cfg);
                let snap = self.s.world(&ctx).snap();
                Box::new((ctx, m, snap)) as Box<dyn Any>
            });
            let (ctx, m0, root) = entry.downcast_ref::<(S::Ctx, S::M, Snap)>().unwrap();
            let w = self.s.world(ctx);
            w.restore(root);
            let mut m = m0.clone();
            let mut bad = false;
            let mut pruned = false;
            for &ix in path {
                let acts = self.s.actions(ctx, &m);
                let mut o = StepOut::default();
                self.s.step(ctx, &mut m, &acts[ix], &mut o);
                if !o.mismatches.is_empty() && std::env::var_os("AXMC_XDEBUG").is_some() {
                    eprintln!("xcheck mismatch at path {:?} (cfg {}): {:?}", path, self.cfg, o.mismatches);
                }
                bad |= !o.mismatches.is_empty();
                pruned = o.prune;
            }
            f(ctx, &mut m, bad, pruned)
        })
    }
}

impl<S: Scenario + Send + 'static> Model for XModel<S>
where
    S::Ctx: 'static,
    S::M: 'static,
{
    type State = XState;
    type Action = usize;

    fn init_states(&self) -> Vec<XState> {
        let key = self.at(&[], |ctx, m, _, _| key_of(self.cfg, self.s.world(ctx).state_hash(), m));
        vec![XState { key, path: vec![], bad: false }]
    }

    fn actions(&self, st: &XState, out: &mut Vec<usize>) {
        if st.bad {
            return;
        }
        let n = self.at(&st.path, |ctx, m, _, _| self.s.actions(ctx, m).len());
        out.extend(0..n);
    }

    fn next_state(&self, st: &XState, ix: usize) -> Option<XState> {
        let mut path = st.path.clone();
        path.push(ix);
        let (key, bad, pruned) = self.at(&path, |ctx, m, bad, pruned| {
            let w = self.s.world(ctx);
            let key = key_of(self.cfg, w.state_hash(), m);
            // like the explorer, do not enter (hence do not probe) a state behind a pruned transition
            let mut probe_bad = false;
            if !pruned {
                let known = self.probed.lock().unwrap().get(&key).copied();
                probe_bad = match known {
                    Some(b) => b,
                    None => {
                        let mut o = StepOut::default();
                        let snap = w.snap();
                        self.s.probe(ctx, m, &mut o);
                        w.restore(&snap);
                        let b = !o.mismatches.is_empty();
                        self.probed.lock().unwrap().insert(key, b);
                        b
                    }
                };
            }
            (key, bad || probe_bad, pruned)
        });
        // the explorer does not enter states behind a pruned transition either
        if pruned && !bad {
            return None;
        }
        Some(XState { key, path, bad })
    }

    fn properties(&self) -> Vec<Property<Self>> {
        vec![Property::<Self>::always("model and implementation agree", |_, st| !st.bad)]
    }
}

pub struct XResult {
    pub unique_states: usize,
    pub violation_path: Option<Vec<usize>>,
}

/// Runs stateright's BFS to completion over every configuration of the scenario.
pub fn run<S: Scenario + Send + 'static>(s: std::sync::Arc<S>, threads: usize) -> XResult
where
    S::Ctx: 'static,
    S::M: 'static,
{
    let mut total = 0usize;
    let mut violation = None;
    for cfg in 0..s.n_configs() {
        let model = XModel { s: s.clone(), cfg, probed: std::sync::Mutex::new(HashMap::new()) };
        let checker = model.checker().threads(threads).spawn_bfs().join();
        total += checker.unique_state_count();
        if let Some(p) = checker.discovery("model and implementation agree") {
            violation = Some(p.last_state().path.clone());
        }
    }
    XResult { unique_states: total, violation_path: violation }
}
