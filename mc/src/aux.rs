//! Harness-side contracts (DESIGN.md section 2: engine/src/aux).

use soroban_sdk::auth::{Context, CustomAccountInterface};
use soroban_sdk::crypto::Hash;
use soroban_sdk::{
    contract, contracterror, contractimpl, Address, Bytes, BytesN, Env, String, Symbol, TryFromVal,
    Val, Vec,
};

#[contracterror]
#[derive(Copy, Clone, Debug, Eq, PartialEq, PartialOrd, Ord)]
#[repr(u32)]
pub enum AuxError {
    Boom = 1,
}

pub mod principal {
    use super::*;
    /// A principal: an account contract that accepts any signature. Authorisation is decided
    /// by *which entries the harness supplies*, never by signature contents.
    #[contract]
    pub struct Principal;

    #[contractimpl]
    impl CustomAccountInterface for Principal {
        type Signature = Val;
        type Error = AuxError;

        #[allow(non_snake_case)]
        fn __check_auth(
            _env: Env,
            _signature_payload: Hash<32>,
            _signature: Val,
            _auth_contexts: Vec<Context>,
        ) -> Result<(), AuxError> {
            Ok(())
        }
    }
}

pub mod factory {
    use super::*;
    /// Deploys a natively seated contract through the real `deploy_v2` path, so that a failing
    /// constructor is rolled back by the host like any failed transaction.
    #[contract]
    pub struct Factory;

    #[contractimpl]
    impl Factory {
        pub fn deploy(env: Env, wasm_hash: BytesN<32>, salt: BytesN<32>, args: Vec<Val>) -> Address {
            env.deployer()
                .with_current_contract(salt)
                .deploy_v2(wasm_hash, args)
        }
    }
}

pub mod caller {
    use super::*;
    /// A contract that calls another contract passing itself as the named address
    /// ("or is itself the calling contract").
    #[contract]
    pub struct Caller;

    #[contractimpl]
    impl Caller {
        /// Invokes `target.func(args)`; occurrences of the symbol `__self__` in `args` are
        /// replaced by this contract's own address.
        pub fn relay(env: Env, target: Address, func: Symbol, args: Vec<Val>) -> Val {
            let me: Val = env.current_contract_address().to_val();
            let marker = Symbol::new(&env, "__self__");
            let mut a = Vec::new(&env);
            for v in args.iter() {
                let is_marker = Symbol::try_from_val(&env, &v).map(|s| s == marker).unwrap_or(false);
                if is_marker {
                    a.push_back(me);
                } else {
                    a.push_back(v);
                }
            }
            env.invoke_contract::<Val>(&target, &func, a)
        }
    }
}

pub mod probe {
    use super::*;
    /// Probe target for the operators contract.
    #[contract]
    pub struct Probe;

    #[contractimpl]
    impl Probe {
        pub fn echo(_env: Env, v: Val) -> Val {
            v
        }
        pub fn add(_env: Env, a: i128, b: i128) -> i128 {
            a + b
        }
        pub fn sub(_env: Env, a: i128, b: i128) -> i128 {
            a - b
        }
        /// the largest arity a contract function can have: returns its arguments in order
        #[allow(clippy::too_many_arguments)]
        pub fn ten(env: Env, a0: Val, a1: Val, a2: Val, a3: Val, a4: Val, a5: Val, a6: Val, a7: Val, a8: Val, a9: Val) -> soroban_sdk::Vec<Val> {
            soroban_sdk::Vec::from_array(&env, [a0, a1, a2, a3, a4, a5, a6, a7, a8, a9])
        }
        pub fn record(env: Env, n: u32, tag: Bytes) -> u32 {
            let c: u32 = env.storage().instance().get(&Symbol::new(&env, "count")).unwrap_or(0);
            env.storage().instance().set(&Symbol::new(&env, "count"), &(c + 1));
            env.storage().instance().set(&Symbol::new(&env, "last"), &(n, tag.clone()));
            env.events().publish((Symbol::new(&env, "probe_recorded"), n), tag);
            c + 1
        }
        pub fn count(env: Env) -> u32 {
            env.storage().instance().get(&Symbol::new(&env, "count")).unwrap_or(0)
        }
        pub fn boom(_env: Env) -> Result<(), AuxError> {
            Err(AuxError::Boom)
        }
        pub fn crash(_env: Env) {
            panic!("probe crash")
        }
        /// The probe can be told to name an address as the holder of every role a caller might ask
        /// a target about; a forwarder must not take the target's word for who may call it.
        pub fn set_boss(env: Env, boss: Address) {
            env.storage().instance().set(&Symbol::new(&env, "boss"), &boss);
        }
        pub fn owner(env: Env) -> Address {
            env.storage().instance().get(&Symbol::new(&env, "boss")).unwrap()
        }
        pub fn operator(env: Env) -> Address {
            Self::owner(env)
        }
        pub fn admin(env: Env) -> Address {
            Self::owner(env)
        }
        pub fn gas_collector(env: Env) -> Address {
            Self::owner(env)
        }
        pub fn is_operator(env: Env, account: Address) -> bool {
            env.storage().instance().get::<_, Address>(&Symbol::new(&env, "boss")) == Some(account)
        }
        pub fn is_minter(env: Env, account: Address) -> bool {
            Self::is_operator(env, account)
        }
    }
}

pub mod mini_app {
    use super::*;
    use axelar_gateway::executable::AxelarExecutableInterface;
    /// Minimal destination app using the executable interface's validation helper.
    #[contract]
    pub struct MiniApp;

    #[contractimpl]
    impl AxelarExecutableInterface for MiniApp {
        fn gateway(env: &Env) -> Address {
            env.storage().instance().get(&Symbol::new(env, "gw")).unwrap()
        }

        fn execute(
            env: Env,
            source_chain: String,
            message_id: String,
            source_address: String,
            payload: Bytes,
        ) {
            if Self::validate_message(&env, &source_chain, &message_id, &source_address, &payload)
                .is_err()
            {
                panic!("not approved");
            }
            let c: u32 = env.storage().instance().get(&Symbol::new(&env, "count")).unwrap_or(0);
            env.storage().instance().set(&Symbol::new(&env, "count"), &(c + 1));
            env.events().publish(
                (Symbol::new(&env, "executed"), source_chain, message_id, source_address),
                (payload,),
            );
        }
    }

    #[contractimpl]
    impl MiniApp {
        pub fn __constructor(env: Env, gateway: Address) {
            env.storage().instance().set(&Symbol::new(&env, "gw"), &gateway);
        }
        pub fn count(env: Env) -> u32 {
            env.storage().instance().get(&Symbol::new(&env, "count")).unwrap_or(0)
        }
    }
}

pub mod weird_token {
    use super::*;
    /// A token-like contract with arbitrary metadata answers (for canonical registration of
    /// tokens whose metadata cannot be represented remotely).
    #[contract]
    pub struct WeirdToken;

    #[contractimpl]
    impl WeirdToken {
        pub fn __constructor(env: Env, name: String, symbol: String, decimals: u32) {
            env.storage().instance().set(&Symbol::new(&env, "n"), &name);
            env.storage().instance().set(&Symbol::new(&env, "s"), &symbol);
            env.storage().instance().set(&Symbol::new(&env, "d"), &decimals);
        }
        pub fn name(env: Env) -> String {
            env.storage().instance().get(&Symbol::new(&env, "n")).unwrap()
        }
        pub fn symbol(env: Env) -> String {
            env.storage().instance().get(&Symbol::new(&env, "s")).unwrap()
        }
        pub fn decimals(env: Env) -> u32 {
            env.storage().instance().get(&Symbol::new(&env, "d")).unwrap()
        }
        pub fn balance(_env: Env, _id: Address) -> i128 {
            0
        }
        /// the token's issuer renames it
        pub fn rebrand(env: Env, name: String, symbol: String) {
            env.storage().instance().set(&Symbol::new(&env, "n"), &name);
            env.storage().instance().set(&Symbol::new(&env, "s"), &symbol);
        }
    }
}

pub mod token_app {
    use super::*;
    /// An app receiving interchain transfers with data.
    #[contract]
    pub struct TokenApp;

    #[contractimpl]
    impl TokenApp {
        pub fn __constructor(env: Env, its: Address) {
            env.storage().instance().set(&Symbol::new(&env, "its"), &its);
        }
        pub fn execute_with_interchain_token(
            env: Env,
            source_chain: String,
            message_id: String,
            source_address: Bytes,
            payload: Bytes,
            token_id: BytesN<32>,
            token_address: Address,
            amount: i128,
        ) {
            let its: Address = env.storage().instance().get(&Symbol::new(&env, "its")).unwrap();
            its.require_auth();
            env.events().publish(
                (Symbol::new(&env, "app_executed"), source_chain, message_id, source_address),
                (payload, token_id, token_address, amount),
            );
        }
    }
}

/// Upgrade target defined with the repository's derive macros (entry points from the tree),
/// version = this crate's version (0.1.0); the upgrader's success path swaps it to the
/// repository's prebuilt dummy.wasm (0.2.0).
pub mod dummy_target {
    use axelar_soroban_std::{interfaces, Ownable, Upgradable};
    use soroban_sdk::{contract, contracterror, contractimpl, Address, Env};

    #[contracterror]
    #[derive(Copy, Clone, Debug, Eq, PartialEq, PartialOrd, Ord)]
    #[repr(u32)]
    pub enum ContractError {
        MigrationNotAllowed = 1,
    }

    #[contract]
    #[derive(Ownable, Upgradable)]
    pub struct DummyTarget;

    #[contractimpl]
    impl DummyTarget {
        pub fn __constructor(env: Env, owner: Address) {
            interfaces::set_owner(&env, &owner);
        }
    }

    impl DummyTarget {
        const fn run_migration(_env: &Env, _migration_data: ()) {}
    }
}
/// A minimal token whose `transfer` refuses one configured recipient (a transfer can fail for
/// reasons other than the sender's balance, e.g. a de-authorised trustline).
pub mod fussy_token {
    use soroban_sdk::{contract, contractimpl, Address, Env, Symbol};

    #[contract]
    pub struct FussyToken;

    #[contractimpl]
    impl FussyToken {
        pub fn __constructor(env: Env, blocked: Address) {
            env.storage().instance().set(&Symbol::new(&env, "blocked"), &blocked);
        }
        pub fn mint(env: Env, to: Address, amount: i128) {
            let b = Self::balance(env.clone(), to.clone());
            env.storage().persistent().set(&to, &(b + amount));
        }
        pub fn balance(env: Env, id: Address) -> i128 {
            env.storage().persistent().get(&id).unwrap_or(0)
        }
        pub fn transfer(env: Env, from: Address, to: Address, amount: i128) {
            from.require_auth();
            let blocked: Address = env.storage().instance().get(&Symbol::new(&env, "blocked")).unwrap();
            if to == blocked {
                panic!("recipient refused");
            }
            // (deliberately no check of the amount's sign: the gas service's own "positive amount"
            // rule is what has to stop a negative payment for such a token)
            let fb = Self::balance(env.clone(), from.clone());
            if fb < amount {
                panic!("insufficient balance");
            }
            env.storage().persistent().set(&from, &(fb - amount));
            let tb = Self::balance(env.clone(), to.clone());
            env.storage().persistent().set(&to, &(tb + amount));
        }
    }
}
/// A "token" whose transfer does nothing and needs nobody's authorisation (an attacker-supplied
/// gas token).
pub mod noop_token {
    use soroban_sdk::{contract, contractimpl, Address, Env};

    #[contract]
    pub struct NoopToken;

    #[contractimpl]
    impl NoopToken {
        pub fn transfer(_env: Env, _from: Address, _to: Address, _amount: i128) {}
        pub fn balance(_env: Env, _id: Address) -> i128 {
            0
        }
    }
}
pub use dummy_target::DummyTarget;
pub use fussy_token::FussyToken;
pub use noop_token::NoopToken;

pub use principal::*;
pub use factory::*;
pub use caller::*;
pub use probe::*;
pub use mini_app::*;
pub use weird_token::*;
pub use token_app::*;
