#!/bin/bash
# setup_cmd: offline release build of the harness (dependencies + engine + all property binaries)
set -e
cd "$(dirname "$0")/mc"
export CARGO_NET_OFFLINE=true
cargo build --release --offline --bins 2>&1 | tail -3
