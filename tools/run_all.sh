#!/bin/bash
# Runs every check of one tier on /repo's current tree and keeps a copy of each evidence file.
# usage: tools/run_all.sh quick|thorough [ids...]
# Writes tools/evidence_<tier>/Cxx.json (+ Cxx.xcheck with stateright's verdict) and tools/last_<tier>_run.log.
tier="${1:-quick}"; shift
ids="$@"; [ -z "$ids" ] && ids="C01 C02 C03 C04 C05 C06 C07 C08 C09 C10 C11 C12 C13 C14 C15 C16 C17 C18"
cd /verif || exit 2
if ! git -C /repo diff --quiet; then echo "/repo has uncommitted changes"; exit 2; fi
out=tools/evidence_$tier; mkdir -p $out
log=tools/last_${tier}_run.log; [ $# -eq 0 ] && : > $log
for id in $ids; do
  res=$( { /usr/bin/time -f "%es %MKB" ./check $id $tier; } 2>&1 ); rc=$?
  echo "$res" | grep -E "^$id $tier:|cross-check|MACHINERY|VIOLATION|s [0-9]+KB$" | tr '\n' ' ' >> $log
  echo "exit=$rc" >> $log
  cp evidence/$id.json $out/$id.json
  rm -f $out/$id.xcheck
  x=$(echo "$res" | grep -o "stateright BFS reached [0-9]* unique states, explorer fixpoint has [0-9]* -> [a-z]*" | sed 's/stateright BFS reached \([0-9]*\) unique states, explorer fixpoint has [0-9]* -> \(.*\)/\1 states, \2/')
  [ -n "$x" ] && echo "$x" > $out/$id.xcheck
  echo "$id $tier exit=$rc"
done
