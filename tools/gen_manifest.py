#!/usr/bin/env python3
"""Regenerates /verif/MANIFEST.json from the table below (checks implemented so far)."""
import json, os
root = os.path.dirname(os.path.dirname(os.path.abspath(__file__)))
props = [json.loads(l) for l in open(os.path.join(root, 'properties.jsonl'))]

TB = ("soroban-env-host 22.1 test host (native dispatch, rollback, auth enforcement, TTL); rustc; the reference model and "
      "independent oracles in /verif/mc/src (tiny-keccak, ed25519-dalek, stellar-xdr, hand-written ABI encoder); small-scope "
      "universe named in the evidence file's coverage.rule")

# id -> (category, technique, text, design_ref)
CHECKS = {}
def add(i, cat, tech, text, ref):
    CHECKS[i] = (cat, tech, text, ref)

exec(open(os.path.join(root, 'tools', 'checks_table.py')).read())

checks = []
for p in props:
    i = p['id']
    if i not in CHECKS: continue
    cat, tech, text, ref = CHECKS[i]
    checks.append({
        "property_id": i,
        "quick_cmd": f"./check {i} quick",
        "thorough_cmd": f"./check {i} thorough",
        "evidence_file": f"/verif/evidence/{i}.json",
        "replay_cmd_template": "./check replay {path}",
        "engine": "axmc",
        "level_claimed": {"category": cat, "text": text, "design_ref": ref},
        "level_note": TB,
        "technique": tech,
    })
na = [{"property_id": p['id'], "reason": "check not implemented yet (work in progress; the plan is in DESIGN.md section 4)"}
      for p in props if p['id'] not in CHECKS]
m = {
 "version": 1,
 "setup_cmd": "./setup.sh",
 "hooks": {
   "guard": "axelar_cgp_soroban_verif",
   "enable": "no hooks are needed (every observation goes through public entry points, the host's event buffer and the host's ledger storage); the guard name is reserved and unused",
   "baseline_off_cmd": "cd /repo && cargo test --workspace --no-fail-fast --offline",
   "source_commits": [],
   "add_only": True
 },
 "engines": [{
   "name": "axmc", "path": "/verif/mc", "serves_properties": sorted(CHECKS.keys()),
   "kind_free_text": "hand-rolled explicit-state model checker: iterative-deepening DFS with snapshot/restore and a visited table over canonical ledger state; the transition function is the real contract code from /repo's working tree running natively in the soroban test host, checked in lock-step against small Rust reference models; bounded-exhaustive input-space sweeps for the history-free properties"
 }, {
   "name": "stateright-crosscheck", "path": "/verif/mc/src/xcheck.rs",
   "serves_properties": ["C02", "C03", "C06", "C08", "C15", "C16", "C17", "C18"],
   "kind_free_text": "stateright 0.31 explicit-state BFS over the same scenarios (state = canonical key + shortest path, re-created by replay on thread-local hosts); run after the thorough tier of the fixpoint properties: unique state count must equal the explorer's and the always-property 'model and implementation agree' must hold"
 }],
 "checks": checks,
 "not_applicable": na,
 "notes": "Exit codes of every check: 0 held on everything explored (KNOWN-FINDING lines possible), 1 VIOLATION, 2 machinery failure (build error, nondeterministic replay, vacuous run, cap before minimum bound). Genuine defects: known_findings.txt. Two defects were repaired in /repo by unguarded 'fix:' commits 0cccebf (C12) and 274863a (C16)."
}
json.dump(m, open(os.path.join(root, 'MANIFEST.json'), 'w'), indent=1)
print("checks:", len(checks), "not_applicable:", len(na))
