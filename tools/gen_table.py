#!/usr/bin/env python3
"""Prints the numeric columns of DESIGN.md section 4.0 from evidence files.

usage: tools/gen_table.py <quick evidence dir> <thorough evidence dir>
Both directories hold Cxx.json files written by the checks themselves (the thorough directory
is filled by tools/run_all.sh, which copies /verif/evidence/Cxx.json after each thorough run and
keeps the stateright line of the run's log in Cxx.xcheck).
"""
import json, os, sys

def cell(d, pid):
    f = os.path.join(d, pid + ".json")
    if not os.path.exists(f):
        return "-"
    e = json.load(open(f))
    c = e["coverage"]
    if "grid_messages" in c:
        return "%d messages + %d hostile inputs, %.0f s" % (c["grid_messages"], c["decode_inputs"], e["wall_s"])
    head = "fixpoint at depth %d" % c["bound_completed"] if c.get("fixpoint") else "depth %d" % c["bound_completed"]
    s = "%s, %d states, %d transitions, %.0f s" % (head, c["states"], c["transitions"], e["wall_s"])
    if c.get("capped"):
        s += " (wall cap hit in the next bound)"
    x = os.path.join(d, pid + ".xcheck")
    if os.path.exists(x):
        s += "; stateright: " + open(x).read().strip()
    return s

q, t = sys.argv[1], sys.argv[2]
for i in range(1, 19):
    pid = "C%02d" % i
    print("| %s | %s | %s |" % (pid, cell(q, pid), cell(t, pid)))
