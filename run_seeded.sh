#!/bin/bash
# ./run_seeded.sh <patch.diff> <Cxx> [tier]   apply a seeded change to /repo, run the check, revert
set -u
patch="$1"; id="$2"; tier="${3:-quick}"
cd /repo || exit 2
if ! git diff --quiet || [ -n "$(git status --porcelain -- contracts packages)" ]; then echo "/repo is dirty, refusing"; exit 2; fi
git apply "$patch" || { echo "patch does not apply"; exit 2; }
( cd /verif && ./check "$id" "$tier" ); rc=$?
git -C /repo checkout -- .
git -C /repo clean -fdq -- contracts packages   # a change may add files
echo "exit=$rc"
exit $rc
